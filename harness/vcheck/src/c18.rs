//! C18 - the DHCPv4 client never uses an address beyond its lease.
//!
//! One Ethernet node with a `dhcpv4::Socket`; the "application" applies
//! Configured/Deconfigured to the interface exactly as examples/dhcp_client.rs
//! does. A scripted server (own DHCP encoder, `c18_dhcp.rs`) answers what it sees
//! on the wire with right and near-miss replies; the environment also answers (or
//! ignores) ARP requests. Oracle = lease model built only from the frames delivered
//! to the client (classified by the independent decoders), the frames the client
//! emitted, `dhcpv4::Socket::poll()` events and `Interface::poll_at`.
//!
//! Oracle clauses and their failure keys
//!  1 `configured-without-valid-ack:<reason>` (reason = first requirement the closest delivered
//!    message fails: eth-dst, udp-checksum, wrong-port, bad-cookie, not-ack, before-any-request, xid,
//!    chaddr, not-requesting, no-server-id, truncated-options, mask-absent, mask-noncontiguous,
//!    yiaddr-not-unicast, no-reply-delivered), `configured-mismatch:{address,router,dns}`
//!  2 `lease-overrun:<scenario>`, `poll_at-after-expiry:<scenario>`
//!  3 `rebind-before-renew`, `request-after-expiry`, `no-rebind-attempt-before-expiry:<scenario>`,
//!    `no-renew-attempt-before-expiry`, `rebind-without-renew`
//!  4 `solicit-gap`, `solicit-gap:poll_at`
//! <scenario> is `neighbor-known` when, for the whole lease, the environment announced the next hop
//! towards the server by ARP before every poll (the client never had to resolve it), otherwise
//! `neighbor-unresolved`. The suffix only names the scenario class; it never changes a verdict.
//!
//! Files: c18.rs (types), c18_dhcp.rs (own DHCP codec, a module), c18_world.rs (oracle + one
//! simulation step) and c18_case.rs (scripted server, driver, Prop) are textually included.

#[path = "c18_dhcp.rs"]
mod dhcp;

use dhcp::*;
use smoltcp::iface::SocketHandle;
use smoltcp::socket::dhcpv4;
use smoltcp::time::{Duration, Instant};
use smoltcp::wire::{DhcpOption, IpCidr, Ipv4Address};
use vkit::indep::{decode_arp, decode_eth, decode_ip4, decode_udp, Arp, Eth, Ip, Ip4, Udp, ETH_ARP, ETH_IPV4, MAC_BROADCAST, PROTO_UDP};
use vkit::runner::{Fail, Part, Prop};
use vkit::sim::{Hw, Node};
use vkit::{Ctx, Src};

const SEC: i64 = 1_000_000;
const BCAST: [u8; 4] = [255; 4];
const DEFAULT_LEASE_S: i64 = 120; // RFC-less default used by the client when option 51 is absent (dhcpv4.rs DEFAULT_LEASE_DURATION)

// ------------------------------------------------------------------ oracle side: what was delivered

/// What the lease model needs to know about a DHCPACK that satisfies the statement.
#[derive(Clone, Debug)]
struct AckInfo {
    yi: [u8; 4],
    prefix: u8,
    /// effective lease = min(option 51 or default, max_lease_duration), microseconds
    lease_us: i64,
    t1: Option<u32>,
    t2: Option<u32>,
    /// None = option absent, Some(Err) = length not a multiple of 4
    routers: Option<Result<Vec<[u8; 4]>, ()>>,
    dns: Option<Result<Vec<[u8; 4]>, ()>>,
    /// option list lacks the end option or its last option overruns the datagram:
    /// the statement does not say whether such a message counts, both outcomes allowed
    ambiguous: bool,
}

struct Seen {
    /// decoded as a DHCP message addressed to the client's DHCP port
    mtype: Option<u8>,
    verdict: Result<AckInfo, &'static str>,
    /// an OFFER with current xid, own chaddr, server id and unicast yiaddr
    offer_ok: bool,
}

// ------------------------------------------------------------------ generator side: server replies

#[derive(Clone, Debug)]
struct Reply {
    mtype: u8,
    xid: u32,
    chaddr: [u8; 6],
    /// option 61 (client identifier, echoed by RFC 6842 servers); says nothing about whom the message is for
    client_id: Option<Vec<u8>>,
    yiaddr: [u8; 4],
    server_id: Option<[u8; 4]>,
    mask: Option<[u8; 4]>,
    lease: Option<u32>,
    t1: Option<u32>,
    t2: Option<u32>,
    routers: Vec<[u8; 4]>,
    /// None = no option 6; Some(vec![]) = option 6 with length 0
    dns: Option<Vec<[u8; 4]>>,
    cookie: u32,
    tail: Tail,
    /// put an overrunning option right after option 53 (everything else is lost)
    overrun_early: bool,
    pads: u8,
    sport: u16,
    dport: u16,
    src_ip: [u8; 4],
    dst_ip: [u8; 4],
    eth_dst: [u8; 6],
    eth_src: [u8; 6],
    bad_csum: bool,
    defects: Vec<&'static str>,
}

impl Reply {
    fn encode(&self) -> Vec<u8> {
        let mut m = DhcpMsg::reply(self.xid, self.chaddr);
        m.yiaddr = self.yiaddr;
        m.siaddr = self.server_id.unwrap_or([0; 4]);
        m.cookie = self.cookie;
        m.opts.push((OPT_MSG_TYPE, vec![self.mtype]));
        if !self.overrun_early {
            if let Some(s) = self.server_id {
                m.opts.push((OPT_SERVER_ID, s.to_vec()));
            }
            if let Some(c) = &self.client_id {
                m.opts.push((61, c.clone()));
            }
            if let Some(l) = self.lease {
                m.opts.push((OPT_LEASE, l.to_be_bytes().to_vec()));
            }
            if let Some(l) = self.t1 {
                m.opts.push((OPT_T1, l.to_be_bytes().to_vec()));
            }
            if let Some(l) = self.t2 {
                m.opts.push((OPT_T2, l.to_be_bytes().to_vec()));
            }
            if let Some(s) = self.mask {
                m.opts.push((OPT_MASK, s.to_vec()));
            }
            if !self.routers.is_empty() {
                m.opts.push((OPT_ROUTER, self.routers.iter().flatten().copied().collect()));
            }
            if let Some(d) = &self.dns {
                m.opts.push((OPT_DNS, d.iter().flatten().copied().collect()));
            }
            m.tail = self.tail;
        } else {
            m.tail = Tail::Overrun;
        }
        let mut body = m.encode();
        if self.pads > 0 && m.tail == Tail::End {
            // pad options after the end option are legal filler (BOOTP minimum size habit)
            body.extend(std::iter::repeat(0u8).take(self.pads as usize));
        }
        let (s, d) = (Ip::V4(self.src_ip), Ip::V4(self.dst_ip));
        let mut udp = Udp::new(self.sport, self.dport, body).encode(&s, &d);
        if self.bad_csum {
            udp[6] ^= 0x01;
            if udp[6] == 0 && udp[7] == 0 {
                udp[6] = 0x02;
            }
        }
        let ip = Ip4::new(self.src_ip, self.dst_ip, PROTO_UDP, udp).encode();
        Eth {
            dst: self.eth_dst,
            src: self.eth_src,
            ethertype: ETH_IPV4,
            payload: ip,
        }
        .encode()
    }

    fn describe(&self) -> String {
        format!(
            "{} xid={:#010x} yiaddr={} sid={} mask={} lease={:?} T1={:?} T2={:?} routers={} dns={} {}->{} ethdst={} ports {}->{}{}",
            type_name(self.mtype),
            self.xid,
            ip_s(self.yiaddr),
            self.server_id.map(ip_s).unwrap_or("-".into()),
            self.mask.map(ip_s).unwrap_or("-".into()),
            self.lease,
            self.t1,
            self.t2,
            self.routers.len(),
            self.dns.as_ref().map(|d| d.len() as i64).unwrap_or(-1),
            ip_s(self.src_ip),
            ip_s(self.dst_ip),
            if self.eth_dst == MAC_BROADCAST { "bcast" } else { "unicast" },
            self.sport,
            self.dport,
            if self.defects.is_empty() { String::new() } else { format!(" DEFECTS={:?}", self.defects) }
        )
    }
}

/// Addressing plan of the scripted network, fixed per case.
#[derive(Clone, Debug)]
struct Plan {
    yi: [u8; 4],
    prefix: u8,
    srv_ip: [u8; 4],
    srv_id: [u8; 4],
    router: Option<[u8; 4]>,
}

#[derive(Clone, Copy, PartialEq, Eq, Debug)]
enum ArpPolicy {
    Answer,
    Never,
    Sometimes,
    /// answers, and additionally the next hop announces itself (ARP request for the client's address) before every poll
    Proactive,
}

/// Client message as seen on the wire.
struct ClientMsg {
    mtype: u8,
    xid: u32,
    ciaddr: [u8; 4],
    ip_dst: [u8; 4],
}

enum Ev {
    None,
    Deconf,
    Conf { addr: [u8; 4], prefix: u8, router: Option<[u8; 4]>, dns: Vec<[u8; 4]> },
}

struct World {
    node: Node,
    h: SocketHandle,
    now: i64,
    mac: [u8; 6],
    smac: [u8; 6],
    sport: u16,
    cport: u16,
    max_lease_us: Option<i64>,
    /// clause 4 bound, see `solicit_bound`
    bound_us: i64,
    plan: Plan,
    arp_policy: ArpPolicy,
    renew_policy: u8,
    src_varied: bool,
    /// 0 = replies always come from the server's address, 1 = sometimes from another unicast address, 2 = sometimes from 0.0.0.0
    weird_src: u8,

    // ---- wire observations
    sent_any: bool,
    last_xid: u32,
    /// DHCP message type of the client's latest message
    last_type: u8,
    /// an acceptable OFFER was delivered since the client's latest message
    offer_seen: bool,
    xids: Vec<u32>,

    // ---- lease model
    configured: bool,
    have_lease: bool,
    e_hi: i64,
    cur: Option<AckInfo>,
    lease_t0: i64,
    lease_ordered: bool,
    lease_clean: bool,
    /// every poll since the lease started was made at or before the instant poll_at named
    lease_sched: bool,
    /// the server's address is on-link or a reported router is (computed from the Configured event)
    routable: bool,
    abort: bool,
    lease_renew_seen: bool,
    lease_rebind_seen: bool,
    /// until this instant the interface may still be holding the socket in its neighbour wait
    gate_until: i64,
    /// no poll of the current lease could have started a neighbour wait
    lease_gate_free: bool,
    /// what the application last applied to the interface: address, prefix, router
    applied: Option<([u8; 4], u8, Option<[u8; 4]>)>,

    // ---- solicitation model
    ref_t: i64,
    unconf_sched: bool,
    /// `Interface::poll_at` after the previous poll (None = not polled yet)
    deadline: Option<Option<i64>>,

    // ---- environment
    /// (steps to wait, frame, description)
    queue: Vec<(u32, Vec<u8>, String)>,

    // ---- bookkeeping for the non-trivial rule
    valid_acks: u32,
    near_miss: u32,
    crossings: u32,
    /// leases accepted whose T1/T2 pair the client cannot use as given (it must fall back to the defaults)
    unusable_t1_t2_leases: u32,
    reply_kinds: Vec<u8>,
}

fn ip4(a: Ipv4Address) -> [u8; 4] {
    a.octets()
}

/// Clause 4 bound, derived from `dhcpv4::Socket::dispatch`:
///  * Discovering: a DISCOVER sent at t sets retry_at = t + discover_timeout, poll_at names retry_at,
///    the next DISCOVER leaves at that poll => gap = discover_timeout.
///  * Requesting: entered from an OFFER with retry_at = now (REQUEST leaves in the same poll);
///    the k-th REQUEST (k = 0..) sets retry_at = t + (initial_request_timeout << (k/2)); after
///    `request_retries` REQUESTs the poll at retry_at resets to Discovering without sending
///    (retry_at = 0, poll_at = 0 => immediate re-poll sends DISCOVER). Largest wait is after the
///    last REQUEST, k = request_retries-1: initial_request_timeout << ((request_retries-1)/2).
///  * reset() (NAK, expiry) => retry_at = 0 => DISCOVER at the next poll.
/// So consecutive transmissions while unconfigured are at most
///    max(discover_timeout, initial_request_timeout << ((max(request_retries,1)-1)/2))
/// apart when polled per poll_at. One extra second of slack is granted on top: the
/// interface may keep the socket silenced for Meta::DISCOVERY_SILENT_TIME after a failed
/// unicast renewal of an earlier lease; that delay is bounded and is not what clause 4 is about.
fn solicit_bound(rc: &dhcpv4::RetryConfig) -> i64 {
    let d = rc.discover_timeout.total_micros() as i64;
    let n = rc.request_retries.max(1) as u32;
    let r = (rc.initial_request_timeout.total_micros() as i64) << ((n - 1) / 2);
    d.max(r) + SEC
}

/// Development knob: VERIF_C18_SKIP=key1,key2 lets cases continue past failures whose key starts
/// with one of the listed prefixes (what an open entry in known_findings.json does), so that the
/// search can be inspected behind already understood findings. Unset in normal runs.
fn rep(ctx: &mut Ctx, f: Fail) -> Result<(), Fail> {
    static SKIP: std::sync::OnceLock<Vec<String>> = std::sync::OnceLock::new();
    let skip = SKIP.get_or_init(|| {
        std::env::var("VERIF_C18_SKIP")
            .map(|s| s.split(',').filter(|x| !x.is_empty()).map(|x| x.to_string()).collect())
            .unwrap_or_default()
    });
    if skip.iter().any(|p| f.key.starts_with(p.as_str())) {
        ctx.label(&format!("skipped:{}", f.key));
        return Ok(());
    }
    ctx.report(f)
}

fn skip_has(tok: &str) -> bool {
    std::env::var("VERIF_C18_SKIP").map(|s| s.split(',').any(|x| x == tok)).unwrap_or(false)
}

static OUT_OPTS_A: [DhcpOption<'static>; 1] = [DhcpOption { kind: 12, data: b"vcheck" }];
static OUT_OPTS_B: [DhcpOption<'static>; 2] = [
    DhcpOption { kind: 12, data: b"c18" },
    DhcpOption { kind: 60, data: b"vkit-dhcp-client-0123456789" },
];
static PRL_A: [u8; 5] = [1, 3, 6, 15, 42];

include!("c18_world.rs");
