//! C13 - `Interface::poll_at` is a sufficient and non-spinning wake-up schedule.
//!
//! One interface (Ethernet / Medium::Ip / IEEE 802.15.4) carrying a drawn mixture
//! of sockets (TCP with scripted peers, DHCPv4 client, DNS, UDP, ICMP, raw) and,
//! optionally, SLAAC. A scripted environment (ARP/NDISC responders, TCP peers,
//! DHCP server, DNS servers, router) sees every emitted frame through the
//! independent codecs and queues replies, which the scenario delivers, delays or
//! loses. After every regular step the prober runs:
//!
//!  * sufficiency: d = poll_at(now); polls at instants strictly before d (or at
//!    +1 s / +100 s / +10^4 s when there is no deadline) must transmit nothing but
//!    IGMP/MLD reports;
//!  * non-spinning: a full-budget poll without any I/O that leaves a deadline
//!    <= now is repeated at the same instant; a second poll without I/O, without
//!    observable progress and still with a deadline <= now is a spin.
//!
//! The oracle never looks at packet contents; decoding is used to feed the
//! scripted environment, to exclude IGMP/MLD and to name what was transmitted.

#[path = "c13_env.rs"]
mod env;

use env::*;
use smoltcp::socket::tcp;
use std::collections::BTreeSet;
use vkit::runner::{Fail, Part, Prop};
use vkit::{Ctx, Src};

/// Development knob: VERIF_C13_SKIP=prefix1,prefix2 lets cases continue past failures whose key
/// starts with one of the prefixes (what an open entry in known_findings.json does). Unset in
/// normal runs.
fn rep(ctx: &mut Ctx, f: Fail) -> Result<(), Fail> {
    static SKIP: std::sync::OnceLock<Vec<String>> = std::sync::OnceLock::new();
    let skip = SKIP.get_or_init(|| {
        std::env::var("VERIF_C13_SKIP")
            .map(|s| s.split(',').filter(|x| !x.is_empty()).map(|x| x.to_string()).collect())
            .unwrap_or_default()
    });
    if skip.iter().any(|p| f.key.starts_with(p.as_str())) {
        ctx.label(&format!("skipped:{}", f.key));
        return Ok(());
    }
    ctx.report(f)
}

fn strict_state() -> bool {
    static V: std::sync::OnceLock<bool> = std::sync::OnceLock::new();
    *V.get_or_init(|| std::env::var("VERIF_C13_STATE").is_ok())
}

struct Run {
    bed: Bed,
    /// armed-source masks seen at probes
    masks: BTreeSet<u16>,
    probes: u64,
    early_polls: u64,
    stop: bool,
}

fn mask_names(m: u16) -> String {
    let v: Vec<&str> = (0..SRC_NAMES.len()).filter(|i| m & (1 << i) != 0).map(|i| SRC_NAMES[i]).collect();
    if v.is_empty() {
        "none".to_string()
    } else {
        v.join("+")
    }
}

impl Run {
    /// One `Interface::poll`; emitted frames are shown to the environment. Returns (had rx, frame infos).
    fn raw_poll(&mut self, budget: Option<usize>, src: &mut Src, ctx: &mut Ctx, why: &str) -> (bool, Vec<FrameInfo>) {
        let had_rx = !self.bed.node.dev.rx.is_empty();
        let now = self.bed.now;
        let frames = self.bed.node.poll(vkit::sim::us(now), budget);
        let mut infos = vec![];
        for f in &frames {
            let fi = self.bed.on_frame(f, src);
            infos.push(fi);
        }
        ctx.note(|| {
            format!(
                "t={} poll[{}]{}{} -> {}",
                now,
                why,
                match budget {
                    None => String::new(),
                    Some(k) => format!(" tx-budget={}", k),
                },
                if had_rx { " (rx)" } else { "" },
                if infos.is_empty() { "nothing".to_string() } else { infos.iter().map(|i| i.class.clone()).collect::<Vec<_>>().join(", ") }
            )
        });
        (had_rx, infos)
    }

    /// Non-spinning check after a full-budget poll at `bed.now` that did no I/O.
    fn spin_check(&mut self, src: &mut Src, ctx: &mut Ctx) -> Result<(), Fail> {
        let mut fp = self.bed.fingerprint();
        let mut silent_repolls = 0;
        loop {
            let now = self.bed.now;
            let d = self.bed.poll_at();
            match d {
                Some(d) if d <= now => {}
                _ => break,
            }
            let armed = self.bed.armed();
            let (_, infos) = self.raw_poll(None, src, ctx, "re-poll, deadline <= now after a poll without I/O");
            if !infos.is_empty() {
                ctx.label("silent-poll-then-transmit");
                ctx.count("silent_repolls_then_tx", 1);
                ctx.label(&format!("silent-repoll:{}", mask_names(armed)));
                break;
            }
            let d2 = self.bed.poll_at();
            let still = matches!(d2, Some(d2) if d2 <= now);
            if !still {
                ctx.label(&format!("silent-repoll:{}", mask_names(armed)));
                ctx.count("silent_repolls_settled", 1);
                break;
            }
            let fp2 = self.bed.fingerprint();
            silent_repolls += 1;
            if fp2 != fp && silent_repolls < 16 {
                // the silent poll visibly changed socket state (e.g. dropped an undeliverable
                // datagram): progress, keep going
                ctx.label("silent-repoll-with-progress");
                ctx.count("silent_repolls_progress", 1);
                fp = fp2;
                continue;
            }
            // two consecutive polls at the same instant without I/O and without observable
            // progress, deadline still not in the future
            let state = self.bed.describe();
            let culprit = self.bed.spin_culprit(d2.unwrap());
            self.stop = true;
            ctx.note(|| format!("SPIN at t={} culprit={} armed={} state: {}", now, culprit, mask_names(armed), state));
            return rep(
                ctx,
                Fail::new(
                    format!("spin:{}", culprit),
                    format!(
                        "t={} us: two consecutive full-budget polls neither received nor transmitted a frame, yet poll_at still returns {} us (<= now); armed sources [{}]; component holding the past deadline: {}; {}",
                        now,
                        d2.unwrap(),
                        mask_names(armed),
                        culprit,
                        state
                    ),
                ),
            );
        }
        Ok(())
    }

    /// Regular poll of a scenario step (with the application's DHCP event handling, as in examples/dhcp_client.rs).
    fn step_poll(&mut self, budget: Option<usize>, src: &mut Src, ctx: &mut Ctx, why: &str) -> Result<(), Fail> {
        for round in 0..3 {
            let (had_rx, infos) = self.raw_poll(budget, src, ctx, if round == 0 { why } else { "after applying DHCP event" });
            for i in &infos {
                if round == 0 && why == "at deadline" {
                    ctx.label(&format!("fired:{}", i.class));
                }
            }
            if budget.is_none() && !had_rx && infos.is_empty() {
                self.spin_check(src, ctx)?;
                if self.stop {
                    return Ok(());
                }
            }
            if !self.bed.app_dhcp_event(ctx) {
                break;
            }
        }
        self.bed.app_dns_collect(ctx);
        self.bed.observe_slaac();
        Ok(())
    }

    /// The prober: sufficiency of the deadline returned now.
    fn probe(&mut self, src: &mut Src, ctx: &mut Ctx) -> Result<(), Fail> {
        if self.stop {
            return Ok(());
        }
        assert!(self.bed.node.dev.rx.is_empty(), "prober started with frames waiting");
        let now = self.bed.now;
        let d = self.bed.poll_at();
        let armed = self.bed.armed();
        self.probes += 1;
        self.masks.insert(armed);
        if armed != 0 {
            ctx.nontrivial = true;
        }
        for i in 0..SRC_NAMES.len() {
            if armed & (1 << i) != 0 {
                ctx.label(&format!("probe:{}", SRC_NAMES[i]));
            }
        }
        ctx.label(&format!("probe:sources={}", armed.count_ones().min(5)));
        let instants: Vec<i64> = match d {
            None => {
                ctx.label("deadline:none");
                if armed & 1 != 0 {
                    // C02's business (RTO fired while nothing could be sent leaves the timer idle); only a label here
                    ctx.label("deadline:none-with-unacknowledged-tcp-data");
                }
                let mut v = vec![now + SEC];
                if src.chance(1, 2) {
                    v.push(now + 100 * SEC);
                    if src.chance(1, 2) {
                        v.push(now + 10_000 * SEC);
                    }
                }
                v
            }
            Some(d) if d <= now => {
                ctx.label("deadline:now");
                vec![]
            }
            Some(d) => {
                ctx.label("deadline:future");
                let mut v = vec![now + 1, now + (d - now) / 2, d - 1];
                v.retain(|t| *t > now && *t < d);
                v.sort();
                v.dedup();
                v
            }
        };
        ctx.note(|| format!("t={} probe: poll_at={:?} armed=[{}] early instants {:?}", now, d, mask_names(armed), instants));
        let slaac_erased = self.bed.slaac && d.is_none();
        let fp0 = self.bed.fingerprint();
        for t in instants {
            self.bed.now = t;
            self.early_polls += 1;
            let (_, infos) = self.raw_poll(None, src, ctx, "early probe");
            if armed != 0 {
                for i in 0..SRC_NAMES.len() {
                    if armed & (1 << i) != 0 {
                        ctx.label(&format!("early-probe:{}", SRC_NAMES[i]));
                    }
                }
            }
            let bad: Vec<&FrameInfo> = infos.iter().filter(|i| !i.excluded).collect();
            if let Some(first) = bad.first() {
                let key = format!("early-transmit:{}{}", if slaac_erased { "no-deadline-with-slaac:" } else { "" }, first.class);
                let msg = format!(
                    "poll_at({} us) returned {}; with no frame delivered and no socket call in between, poll({} us) transmitted [{}]; armed sources [{}]; scenario {}; {}",
                    now,
                    match d {
                        Some(d) => format!("{} us", d),
                        None => "None (no deadline)".to_string(),
                    },
                    t,
                    bad.iter().map(|i| i.class.clone()).collect::<Vec<_>>().join(", "),
                    mask_names(armed),
                    self.bed.kind,
                    self.bed.describe()
                );
                rep(ctx, Fail::new(key, msg))?;
                // the schedule is broken from here on; what was transmitted is real, carry on from t
                break;
            }
            // Beyond the literal statement (which speaks of transmissions): an early poll that changes
            // socket states / queues / interface addresses means a silent timer (TIME-WAIT, address or
            // lease expiry, ...) or deferred work ran before the announced deadline, i.e. sleeping until
            // the deadline would have delayed it. Counted; a failure only with VERIF_C13_STATE=1.
            let fp1 = self.bed.fingerprint();
            if fp1 != fp0 {
                let what = self.bed.fingerprint_diff(&fp0, &fp1);
                ctx.label(&format!("early-state-change:{}", what));
                ctx.count("early_state_changes", 1);
                if strict_state() {
                    let msg = format!(
                        "poll_at({} us) returned {:?}; the early poll at {} us transmitted nothing relevant but changed observable state ({}); armed sources [{}]; scenario {}; {}",
                        now,
                        d,
                        t,
                        what,
                        mask_names(armed),
                        self.bed.kind,
                        self.bed.describe()
                    );
                    rep(ctx, Fail::new(format!("early-state-change:{}", what), msg))?;
                }
                break;
            }
            if infos.is_empty() {
                self.spin_check(src, ctx)?;
                if self.stop {
                    return Ok(());
                }
            } else {
                ctx.label("early-probe:only-igmp-mld");
            }
        }
        Ok(())
    }
}

/// A panic raised inside smoltcp gets a key without the function name: which frame is innermost
/// depends on inlining along the call path (poll vs poll_at), the file and message do not.
fn case(src: &mut Src, ctx: &mut Ctx) -> Result<(), Fail> {
    match vkit::runner::guarded(|| case_inner(src, ctx)) {
        Ok(r) => r,
        Err(p) if vkit::runner::panic_in_smoltcp(&p) => {
            let file = if !p.smol_file.is_empty() {
                p.smol_file.clone()
            } else {
                match p.file.find("/repo/src/") {
                    Some(i) => p.file[i + 6..].to_string(),
                    None => p.file.clone(),
                }
            };
            let mut msg = String::new();
            let mut in_num = false;
            for c in p.msg.chars() {
                if c.is_ascii_digit() {
                    if !in_num {
                        msg.push('N');
                    }
                    in_num = true;
                } else {
                    in_num = false;
                    msg.push(c);
                }
            }
            msg.truncate(120);
            Err(Fail::new(format!("panic:{}:{}", file, msg), format!("smoltcp panicked at {}:{}: {}", p.file, p.line, p.msg)))
        }
        Err(p) => panic!("harness panic at {}:{}: {}", p.file, p.line, p.msg),
    }
}

fn case_inner(src: &mut Src, ctx: &mut Ctx) -> Result<(), Fail> {
    let bed = Bed::generate(src, ctx);
    for part in bed.kind.split(|c| c == ':' || c == '+') {
        ctx.label(&format!("kind:{}", part));
    }
    ctx.digest.str(&bed.kind);
    let mut run = Run { bed, masks: BTreeSet::new(), probes: 0, early_polls: 0, stop: false };

    // first poll and probe
    run.step_poll(None, src, ctx, "initial")?;
    run.probe(src, ctx)?;

    let mut steps = 0;
    while steps < 200 && !run.stop && src.more(79, 80) {
        steps += 1;
        match src.weighted(&[10, 8, 6, 5, 2, 1, 1]) {
            0 => {
                // sleep exactly until the deadline
                let now = run.bed.now;
                match run.bed.poll_at() {
                    Some(d) if d > now => {
                        run.bed.now = d;
                        ctx.note(|| format!("-- sleep until poll_at = {} us (+{} us)", d, d - now));
                    }
                    Some(_) => ctx.note(|| "-- poll_at <= now: poll at once".to_string()),
                    None => {
                        let dt = *src.pick(&[1_000i64, SEC, 30 * SEC]);
                        run.bed.now += dt;
                        ctx.note(|| format!("-- no deadline: wait {} us", dt));
                    }
                }
                run.step_poll(None, src, ctx, "at deadline")?;
            }
            1 => {
                // deliver frames waiting in the environment
                let n = run.bed.pending.len();
                if n > 0 {
                    let k = if src.chance(3, 4) { n } else { src.usize(1, n) };
                    let delay = *src.pick(&[0i64, 1, 200, 5_000, 300_000]);
                    run.bed.now += delay;
                    run.bed.deliver(k, ctx);
                    run.step_poll(None, src, ctx, "delivery")?;
                } else {
                    continue;
                }
            }
            2 => {
                run.bed.app_action(src, ctx);
                let budget = if src.chance(1, 6) { Some(src.usize(0, 2)) } else { None };
                run.step_poll(budget, src, ctx, "after application call")?;
            }
            3 => {
                if !run.bed.env_action(src, ctx) {
                    continue;
                }
                let n = run.bed.pending.len();
                run.bed.deliver(n, ctx);
                run.step_poll(None, src, ctx, "delivery")?;
            }
            4 => {
                let dt = match src.weighted(&[2, 2, 2, 1]) {
                    0 => src.range(1, 1000) as i64,
                    1 => src.range(1, 200) as i64 * 1000,
                    2 => src.range(1, 20) as i64 * 100_000,
                    _ => src.range(1, 120) as i64 * SEC,
                };
                run.bed.now += dt;
                ctx.note(|| format!("-- time +{} us", dt));
                run.step_poll(None, src, ctx, "late/arbitrary")?;
            }
            5 => {
                let k = src.usize(0, 2);
                run.step_poll(Some(k), src, ctx, "device back-pressure")?;
            }
            _ => {
                let n = run.bed.pending.len();
                if n == 0 {
                    continue;
                }
                run.bed.pending.clear();
                ctx.note(|| format!("-- {} frames waiting in the environment are lost", n));
                continue;
            }
        }
        if run.stop {
            break;
        }
        run.probe(src, ctx)?;
    }

    for m in &run.masks {
        ctx.digest.u64(*m as u64);
    }
    ctx.count("probes", run.probes);
    ctx.count("early_polls", run.early_polls);
    // what the scenario reached
    if !run.stop {
        // (after a spin the sockets were taken apart to find the culprit)
        for t in run.bed.tcps.iter() {
            let st = run.bed.node.sockets.get::<tcp::Socket>(t.h).state();
            ctx.label(&format!("tcp-final:{}", st));
        }
    }
    for l in run.bed.reached.iter() {
        ctx.label(l);
    }
    Ok(())
}

pub fn prop() -> Prop {
    Prop {
        id: "C13",
        parts: vec![Part { name: "schedule", case, quick: 20_000, thorough: 1_000_000 }],
        phases: vec![],
        smoltcp_panic_is_violation: true,
        rule: "one interface on Ethernet (5/9), Medium::Ip (3/9) or IEEE 802.15.4 (1/9) with a drawn mixture of 0-2 TCP sockets (active/passive, keep-alive, timeout, ack delay, Nagle, congestion control drawn) facing scripted peers (auto-ACK always/half/never, zero windows, data, triple duplicate ACKs, FIN, RST), a DHCPv4 client with an answering/lossy/silent scripted server (leases 2 s .. 1 day), a DNS socket with 1-3 servers each answering or silent, UDP/ICMP/raw sockets sending to resolved, unresolved, off-link, unroutable, broadcast and multicast destinations with datagrams up to 4000 bytes (IPv4 fragmentation) under drawn transmit budgets, and SLAAC with/without router advertisements (lifetimes 0 .. 1 day); steps: sleep exactly until poll_at, deliver/lose environment frames, application calls, peer actions, arbitrary waits, budget-limited polls. After every step the prober computes d = poll_at(now) and polls at now+1us, midpoint, d-1us (or +1 s/+100 s/+10^4 s when d is None): any frame other than IGMP/MLD is a violation; every full-budget poll without I/O that leaves poll_at <= now is repeated at the same instant and a second silent poll without observable progress with poll_at still <= now is a spin (the component holding the past deadline is found by removing sockets one by one next to a sentinel socket with a known future deadline). Early polls that transmit nothing but change socket states/queues/interface addresses are counted (label early-state-change:*, a failure only with VERIF_C13_STATE=1) since the statement speaks of transmissions only. Non-trivial = at least one probe with >= 1 armed timer source; distinct by (scenario kind, set of armed-source sets probed)",
        assumptions: vec![
            "independent Ethernet/ARP/NDISC/IPv4/IPv6/UDP/ICMP/TCP codecs in vkit::indep; they only feed the scripted environment, exclude IGMP/MLD and name the offending frame - the verdict is 'a frame was emitted'",
            "scripted DHCP replies are built with smoltcp::wire::DhcpRepr (contents are irrelevant to the oracle)",
            "'armed' sources are inferred from public socket getters and the environment's view of the traffic (labels only)",
            "one poll without I/O followed by a re-poll at the same instant is tolerated (DHCP lease expiry / retry exhaustion reset silently by design); further silent polls are tolerated only while socket queues/states visibly change",
            "on IEEE 802.15.4 the environment is silent and emitted frames are not decoded",
        ],
    }
}
