//! C03 helper: decoding what the stack emitted (with the independent codecs only)
//! and answering it: SYN -> SYN-ACK, data -> ACK, DNS query -> response, DHCP
//! DISCOVER -> OFFER, REQUEST -> ACK, NS -> NA, RS -> RA, ARP request -> reply,
//! fragments / anything -> ICMP error quoting it.

use super::ctl::*;
use super::env::*;
use super::gram::*;
use super::lowpan::*;
use vkit::indep::*;
use vkit::{Ctx, Src};

#[derive(Clone, Debug)]
pub enum Seen {
    Tcp { conn: usize, flags: u8, len: usize },
    DnsQuery,
    Dhcp(u8),
    Ns { target: [u8; 16], solicitor: [u8; 16] },
    Rs,
    ArpReq { tpa: [u8; 4] },
    Frag4,
    LowpanFrag { tag: u16, size: usize },
    Report,
    EchoReply { ident: u16, seq: u16, data: Vec<u8>, src: Ip, dst: Ip },
    OtherIp,
    Undecodable,
}

impl Seen {
    pub fn name(&self) -> &'static str {
        match self {
            Seen::Tcp { flags, len, .. } => {
                if flags & SYN != 0 && flags & ACK != 0 {
                    "tcp-syn-ack"
                } else if flags & SYN != 0 {
                    "tcp-syn"
                } else if flags & RST != 0 {
                    "tcp-rst"
                } else if flags & FIN != 0 {
                    "tcp-fin"
                } else if *len > 0 {
                    "tcp-data"
                } else {
                    "tcp-ack"
                }
            }
            Seen::DnsQuery => "dns-query",
            Seen::Dhcp(1) => "dhcp-discover",
            Seen::Dhcp(3) => "dhcp-request",
            Seen::Dhcp(_) => "dhcp-other",
            Seen::Ns { .. } => "ndisc-ns",
            Seen::Rs => "ndisc-rs",
            Seen::ArpReq { .. } => "arp-request",
            Seen::Frag4 => "ipv4-fragment",
            Seen::LowpanFrag { .. } => "6lowpan-fragment",
            Seen::Report => "igmp-mld-report",
            Seen::EchoReply { .. } => "echo-reply",
            Seen::OtherIp => "other-ip",
            Seen::Undecodable => "undecodable",
        }
    }
}

pub struct Emitted {
    pub seen: Seen,
    /// the IP datagram (or its first fragment), when there is one
    pub ip: Vec<u8>,
}

fn observe_ip(env: &mut Env, ipb: &[u8]) -> Seen {
    let Ok(pkt) = decode_ip(ipb, false) else { return Seen::Undecodable };
    let (s, d) = (pkt.src(), pkt.dst());
    if let IpPkt::V4(p) = &pkt {
        if p.mf || p.frag_off != 0 {
            if p.frag_off != 0 {
                return Seen::Frag4;
            }
            // first fragment: fall through to look at the transport header, remember it is a fragment
            if p.proto == PROTO_UDP && p.payload.len() >= 8 {
                let _ = observe_udp(env, &s, &d, &p.payload, false);
            }
            return Seen::Frag4;
        }
    }
    let pl = pkt.payload();
    match pkt.proto() {
        PROTO_TCP => match decode_tcp(pl, &s, &d) {
            Ok(t) => {
                let t = t.seg;
                let ci = env.conn_index((s, t.sport), (d, t.dport));
                let c = &mut env.conns[ci];
                let end = t.seq.wrapping_add(t.seg_len());
                if !c.seen || seq_lt(c.s_nxt, end) || t.has(SYN) {
                    c.s_nxt = end;
                }
                c.s_seq = t.seq;
                c.s_flags = t.flags;
                c.s_win = t.win;
                if t.has(ACK) {
                    c.s_ack = Some(t.ack);
                    c.p_nxt = t.ack;
                }
                c.seen = true;
                Seen::Tcp { conn: ci, flags: t.flags, len: t.payload.len() }
            }
            Err(_) => Seen::OtherIp,
        },
        PROTO_UDP => observe_udp(env, &s, &d, pl, true),
        PROTO_ICMPV6 => match decode_icmp6(pl, &s, &d) {
            Ok(m) => match m.ty {
                ND_NS if m.body.len() >= 16 => {
                    let mut t = [0u8; 16];
                    t.copy_from_slice(&m.body[..16]);
                    let Ip::V6(sol) = s else { return Seen::OtherIp };
                    Seen::Ns { target: t, solicitor: sol }
                }
                ND_RS => Seen::Rs,
                143 | 131 | 132 => Seen::Report,
                129 => Seen::EchoReply { ident: m.ident(), seq: m.seq(), data: m.body.clone(), src: s, dst: d },
                _ => Seen::OtherIp,
            },
            Err(_) => Seen::OtherIp,
        },
        PROTO_ICMP => match decode_icmp4(pl) {
            Ok(m) if m.ty == 0 => Seen::EchoReply { ident: m.ident(), seq: m.seq(), data: m.body.clone(), src: s, dst: d },
            _ => Seen::OtherIp,
        },
        PROTO_IGMP => Seen::Report,
        _ => Seen::OtherIp,
    }
}

fn observe_udp(env: &mut Env, s: &Ip, d: &Ip, pl: &[u8], complete: bool) -> Seen {
    if pl.len() < 8 {
        return Seen::OtherIp;
    }
    let sport = u16::from_be_bytes([pl[0], pl[1]]);
    let dport = u16::from_be_bytes([pl[2], pl[3]]);
    let body = &pl[8..];
    if (dport == 53 || dport == 5353) && body.len() >= 12 && complete {
        env.dns = Some(DnsObs { own: *s, port: sport, server: *d, sport: dport, txid: u16::from_be_bytes([body[0], body[1]]), question: body[12..].to_vec() });
        return Seen::DnsQuery;
    }
    if sport == 68 && dport == 67 && body.len() >= 240 {
        let xid = u32::from_be_bytes([body[4], body[5], body[6], body[7]]);
        let mut o = DhcpObs { xid, msg: 0, requested: None, server: None };
        let mut at = 240;
        while at + 2 <= body.len() {
            let k = body[at];
            if k == 255 {
                break;
            }
            if k == 0 {
                at += 1;
                continue;
            }
            let l = body[at + 1] as usize;
            if at + 2 + l > body.len() {
                break;
            }
            let v = &body[at + 2..at + 2 + l];
            match (k, l) {
                (53, 1) => o.msg = v[0],
                (50, 4) => o.requested = Some([v[0], v[1], v[2], v[3]]),
                (54, 4) => o.server = Some([v[0], v[1], v[2], v[3]]),
                _ => {}
            }
            at += 2 + l;
        }
        if o.requested.is_none() && body[12..16] != [0; 4] {
            o.requested = Some([body[12], body[13], body[14], body[15]]);
        }
        let m = o.msg;
        env.dhcp = Some(o);
        return Seen::Dhcp(m);
    }
    Seen::OtherIp
}

/// Decode one emitted link frame and update the observations.
pub fn observe(env: &mut Env, frame: &[u8]) -> Emitted {
    match env.own.med {
        Med::Ip => Emitted { seen: observe_ip(env, frame), ip: frame.to_vec() },
        Med::Eth => {
            let Ok(e) = decode_eth(frame) else { return Emitted { seen: Seen::Undecodable, ip: vec![] } };
            match e.ethertype {
                ETH_ARP => match decode_arp(&e.payload) {
                    Ok(a) if a.op == 1 => Emitted { seen: Seen::ArpReq { tpa: a.tpa }, ip: vec![] },
                    _ => Emitted { seen: Seen::OtherIp, ip: vec![] },
                },
                ETH_IPV4 | ETH_IPV6 => Emitted { seen: observe_ip(env, &e.payload), ip: e.payload },
                _ => Emitted { seen: Seen::Undecodable, ip: vec![] },
            }
        }
        Med::Lowpan => {
            let Ok((mac, hl)) = decode_mac(frame) else { return Emitted { seen: Seen::Undecodable, ip: vec![] } };
            let Ok(lp) = decode_dispatch(&frame[hl..]) else { return Emitted { seen: Seen::Undecodable, ip: vec![] } };
            match lp {
                Lp::Iphc(p) => match decompress(p, mac.src, mac.dst, &env.ctxs) {
                    Ok(dc) => {
                        let mut ip = dc.build(None);
                        if dc.udp_csum_elided {
                            if let Some(u) = dc.udp_at {
                                fill_udp_checksum(&mut ip, 40 + u);
                            }
                        }
                        Emitted { seen: observe_ip(env, &ip), ip }
                    }
                    Err(_) => Emitted { seen: Seen::Undecodable, ip: vec![] },
                },
                Lp::Frag1 { size, tag, rest } => {
                    // the first fragment carries the headers: enough to learn ports and sequence numbers
                    if let Ok(dc) = decompress(rest, mac.src, mac.dst, &env.ctxs) {
                        let mut ip = dc.build(Some(size));
                        // make the partial datagram decodable: payload length := what is there
                        let have = (ip.len() - 40) as u16;
                        ip[4..6].copy_from_slice(&have.to_be_bytes());
                        if ip[6] == PROTO_TCP && ip.len() >= 60 {
                            // transport checksum cannot be verified on a partial datagram: read the header directly
                            let (s, d) = (Ip::V6(ip[8..24].try_into().unwrap()), Ip::V6(ip[24..40].try_into().unwrap()));
                            let t = &ip[40..];
                            let sport = u16::from_be_bytes([t[0], t[1]]);
                            let dport = u16::from_be_bytes([t[2], t[3]]);
                            let seq = u32::from_be_bytes([t[4], t[5], t[6], t[7]]);
                            let ack = u32::from_be_bytes([t[8], t[9], t[10], t[11]]);
                            let flags = t[13] & 0x3f;
                            let doff = ((t[12] >> 4) as usize * 4).max(20);
                            let plen = size.saturating_sub(40 + doff);
                            let ci = env.conn_index((s, sport), (d, dport));
                            let c = &mut env.conns[ci];
                            c.s_seq = seq;
                            c.s_nxt = seq.wrapping_add(plen as u32 + (flags & (SYN | FIN) != 0) as u32);
                            c.s_flags = flags;
                            if flags & ACK != 0 {
                                c.s_ack = Some(ack);
                                c.p_nxt = ack;
                            }
                            c.seen = true;
                        }
                    }
                    Emitted { seen: Seen::LowpanFrag { tag, size }, ip: vec![] }
                }
                Lp::FragN { size, tag, .. } => Emitted { seen: Seen::LowpanFrag { tag, size }, ip: vec![] },
            }
        }
    }
}

/// Answer an emitted frame. `proper` = the correct answer; otherwise a near miss
/// (which the caller may mutate further).
pub fn reflect(src: &mut Src, env: &mut Env, e: &Emitted, proper: bool, ctx: &mut Ctx) -> Vec<Pkt> {
    match &e.seen {
        Seen::Tcp { conn, .. } => {
            let ci = (*conn).min(env.conns.len().saturating_sub(1));
            if env.conns.is_empty() {
                return vec![];
            }
            let (p, _) = gen_tcp_on(src, env, ci, proper);
            let mut v = vec![p];
            // bursts: data + FIN, or three duplicate ACKs
            if src.chance(1, 6) {
                for _ in 0..src.usize(1, 3) {
                    v.push(gen_tcp_on(src, env, ci, proper).0);
                }
            }
            v
        }
        Seen::DnsQuery => vec![gen_dns_reply(src, env, proper)],
        Seen::Dhcp(m) => {
            let msg = match (*m, proper) {
                (1, true) => Some(2),
                (3, true) => Some(if src.chance(1, 10) { 6 } else { 5 }),
                (1, false) => Some(*src.pick(&[2u8, 5, 6])),
                (3, false) => Some(*src.pick(&[5u8, 6, 2])),
                _ => None,
            };
            vec![gen_dhcp_reply(src, env, msg, proper)]
        }
        Seen::Ns { target, solicitor } => {
            if proper {
                // advertisement from the owner of the target, to the solicitor, S+O, with TLLAO
                let peer = env.peer_of(&Ip::V6(*target));
                let ll = match env.own.med {
                    Med::Lowpan => match env.peers[peer].ll {
                        Ll::Ext(x) => x.to_vec(),
                        Ll::Short(x) => x.to_vec(),
                        Ll::None => vec![],
                    },
                    _ => env.peers[peer].mac.to_vec(),
                };
                let (s, d) = (Ip::V6(*target), Ip::V6(*solicitor));
                let na = nd_na(target, 0x60, Some(&ll)).encode6(&s, &d);
                let mut pk = Ip6::new(*target, *solicitor, PROTO_ICMPV6, na);
                pk.hop = 255;
                vec![Pkt::v6(pk.encode(), peer, "ndisc-na")]
            } else {
                vec![gen_ndisc(src, env, Some((ND_NA, *target, *solicitor)))]
            }
        }
        Seen::Rs => vec![gen_ndisc(src, env, Some((ND_RA, [0; 16], [0; 16])))],
        Seen::ArpReq { tpa } => {
            if proper {
                let peer = env.peer_of(&Ip::V4(*tpa));
                let own = env.own.v4.unwrap_or([0; 4]);
                let a = Arp { op: 2, sha: env.peers[peer].mac, spa: *tpa, tha: env.own.mac, tpa: own };
                vec![Pkt { body: Body::Arp(a.encode()), from: peer, l2dst: L2Dst::Own, class: "arp" }]
            } else {
                vec![gen_arp(src, env, Some(*tpa))]
            }
        }
        Seen::Frag4 | Seen::OtherIp | Seen::EchoReply { .. } => {
            if e.ip.is_empty() {
                return vec![];
            }
            ctx.label("reflect:icmp-error-quoting-emitted");
            vec![gen_icmp_error(src, env, Some(e.ip.clone()))]
        }
        Seen::Report => {
            if env.own.med != Med::Lowpan && env.own.v4.is_some() && src.bool() {
                vec![gen_igmp(src, env)]
            } else {
                vec![gen_mld(src, env)]
            }
        }
        Seen::LowpanFrag { .. } | Seen::Undecodable => vec![],
    }
}

/// 6LoWPAN: fragments carrying the tag / size of a datagram the stack is sending, back at it.
pub fn reflect_lowpan_frag(src: &mut Src, tag: u16, size: usize) -> Vec<Vec<u8>> {
    let mut v = vec![];
    let size = size.min(2047);
    for _ in 0..src.usize(1, 3) {
        let mut f = if src.chance(1, 3) {
            let mut f = frag1_header(size, tag);
            f.extend_from_slice(&[0x7a, 0x33, 58]);
            f
        } else {
            fragn_header(size, tag, 8 * src.usize(0, (size / 8).min(255)))
        };
        let n = src.usize(0, 90);
        f.extend(src.bytes(n));
        v.push(f);
    }
    v
}
