//! C13 test bed: interface + sockets + scripted environment.

use smoltcp::iface::SocketHandle;
use smoltcp::socket::{dhcpv4, dns, icmp, raw, tcp, udp};
use smoltcp::time::Duration;
use smoltcp::wire::{
    DhcpMessageType, DhcpPacket, DhcpRepr, DnsQueryType, EthernetAddress, IpAddress, IpCidr, IpProtocol, IpVersion, Ipv4Address, Ipv4Cidr, Ipv6Address,
};
use std::collections::{BTreeMap, BTreeSet, VecDeque};
use vkit::indep::*;
use vkit::sim::{us, Hw, Node};
use vkit::{Ctx, Src};

pub const SEC: i64 = 1_000_000;

pub const SRC_NAMES: [&str; 11] = [
    "tcp-retransmit",
    "tcp-delayed-ack",
    "tcp-keepalive",
    "tcp-timeout",
    "tcp-zwp",
    "tcp-timewait",
    "dhcp",
    "dns",
    "neighbor-wait",
    "fragments-pending",
    "slaac",
];
const S_RETX: u16 = 1 << 0;
const S_DACK: u16 = 1 << 1;
const S_KEEP: u16 = 1 << 2;
const S_TMO: u16 = 1 << 3;
const S_ZWP: u16 = 1 << 4;
const S_TW: u16 = 1 << 5;
const S_DHCP: u16 = 1 << 6;
const S_DNS: u16 = 1 << 7;
const S_ND: u16 = 1 << 8;
const S_FRAG: u16 = 1 << 9;
const S_SLAAC: u16 = 1 << 10;

#[derive(Clone, Copy, PartialEq, Eq, Debug)]
pub enum Med {
    Eth,
    Ip,
    Ieee,
}

const NODE_MAC: [u8; 6] = [0x02, 0, 0, 0, 0, 0x01];
const NODE_EXT: [u8; 8] = [0x02, 0, 0, 0, 0, 0, 0, 0x01];
const NODE_V4: [u8; 4] = [10, 0, 0, 1];
const LEASE_V4: [u8; 4] = [10, 0, 0, 50];
const OFF_V4: [u8; 4] = [192, 0, 2, 9];

fn v6(segs: [u16; 8]) -> [u8; 16] {
    match Ip::v6(segs) {
        Ip::V6(a) => a,
        _ => unreachable!(),
    }
}
fn node_ll() -> [u8; 16] {
    v6([0xfe80, 0, 0, 0, 0, 0, 0, 1])
}
fn node_ula() -> [u8; 16] {
    v6([0xfd00, 0, 0, 0, 0, 0, 0, 1])
}
fn off_v6() -> [u8; 16] {
    v6([0x2001, 0xdb8, 0xffff, 0, 0, 0, 0, 9])
}
fn slaac_prefix() -> [u8; 16] {
    v6([0x2001, 0xdb8, 1, 0, 0, 0, 0, 0])
}
fn all_nodes() -> [u8; 16] {
    v6([0xff02, 0, 0, 0, 0, 0, 0, 1])
}

/// A scripted neighbour. Index 0 = H1 (answers as drawn), 1 = H2 (never answers), 2 = gateway/router/DHCP server.
#[derive(Clone, Debug)]
pub struct Host {
    pub v4: [u8; 4],
    pub ula: [u8; 16],
    pub ll: [u8; 16],
    pub mac: [u8; 6],
    /// answers ARP / neighbour solicitations / echo requests
    pub answers: bool,
}

#[derive(Clone, Debug)]
pub enum PendNote {
    None,
    /// a TCP segment from peer `idx` carrying this ack / window
    Tcp { idx: usize, ack: Option<u32>, win: u16 },
}

pub struct Pend {
    pub frame: Vec<u8>,
    pub what: String,
    pub note: PendNote,
}

pub struct FrameInfo {
    /// what was transmitted, as used in failure keys
    pub class: String,
    /// IGMP / MLD report (outside the claim)
    pub excluded: bool,
}

fn fi(class: impl Into<String>) -> FrameInfo {
    FrameInfo { class: class.into(), excluded: false }
}

pub struct TcpCtl {
    pub h: SocketHandle,
    pub raddr: Ip,
    pub laddr: Ip,
    pub lport: u16,
    pub rport: u16,
    pub active: bool,
    // ---- scripted peer
    p_iss: u32,
    /// next sequence number the peer sends
    p_seq: u32,
    /// socket's initial sequence number once a SYN was seen
    iss: Option<u32>,
    /// highest sequence number (end) seen from the socket
    snd_max: u32,
    /// last acknowledgment number seen from the socket
    sock_ack: Option<u32>,
    /// highest acknowledgment delivered to the socket
    acked: Option<u32>,
    /// window of the last segment delivered to the socket
    win_delivered: Option<u16>,
    win: u16,
    /// 0 never, 1 half of the time, 2 always
    auto_ack: u8,
    auto_fin: bool,
    accept: bool,
    fin_sent: bool,
    syn_sent: bool,
}

pub struct Bed {
    pub node: Node,
    pub med: Med,
    pub now: i64,
    pub kind: String,
    pub slaac: bool,
    pub hosts: Vec<Host>,
    pub pending: VecDeque<Pend>,
    pub tcps: Vec<TcpCtl>,
    pub reached: BTreeSet<String>,
    has_v4: bool,
    has_v6: bool,
    route4: bool,
    route6: bool,
    /// loss of environment replies: numerator over 8
    loss8: u64,
    udp: Option<SocketHandle>,
    icmp: Option<SocketHandle>,
    raw4: Option<SocketHandle>,
    raw6: Option<SocketHandle>,
    dhcp: Option<SocketHandle>,
    dhcp_answers: bool,
    dhcp_lease: u32,
    dhcp_t1t2: Option<(u32, u32)>,
    dhcp_nak: bool,
    dhcp_server: usize,
    dns: Option<SocketHandle>,
    dns_servers: Vec<(Ip, bool)>,
    dns_handles: Vec<dns::QueryHandle>,
    dns_last_dst: BTreeMap<u16, Ip>,
    router_answers: bool,
    ra_lifetime: u16,
    ra_prefix: Option<(u32, u32)>,
    rs_seen: u32,
    slaac_addr: bool,
    last_rs_at: i64,
    // ---- observations for the "armed" labels
    nd_until: i64,
    frag_pending: bool,
    cur_v4: Option<[u8; 4]>,
}

fn smol4(a: [u8; 4]) -> Ipv4Address {
    Ipv4Address::new(a[0], a[1], a[2], a[3])
}

impl Bed {
    // ------------------------------------------------------------------ generation

    pub fn generate(src: &mut Src, ctx: &mut Ctx) -> Bed {
        let med = match src.weighted(&[5, 3, 1]) {
            0 => Med::Eth,
            1 => Med::Ip,
            _ => Med::Ieee,
        };
        let seed = src.u64();
        let want_dhcp = med == Med::Eth && src.chance(1, 3);
        let (mut has_v4, has_v6) = match med {
            Med::Ieee => (false, true),
            _ => match src.weighted(&[3, 2, 1]) {
                0 => (true, true),
                1 => (true, false),
                _ => (false, true),
            },
        };
        if want_dhcp {
            has_v4 = true;
        }
        let slaac = med != Med::Ip && has_v6 && src.chance(1, 3);
        let mtu = match med {
            Med::Eth => *src.pick(&[1514usize, 1294 + 14, 590]),
            Med::Ip => *src.pick(&[1500usize, 1280, 576]),
            Med::Ieee => 127,
        };
        // IPv6 needs 1280; on the small MTUs keep to IPv4 datagrams of any size and small IPv6 ones
        let hw = match med {
            Med::Eth => Hw::Eth(NODE_MAC),
            Med::Ip => Hw::Ip,
            Med::Ieee => Hw::Ieee(NODE_EXT, Some(0xbeef)),
        };
        let mut node = Node::new(hw, mtu, seed, slaac, us(0));
        if has_v6 {
            node.add_addr(IpCidr::new(Ip::V6(node_ll()).to_smol(), 64));
            node.add_addr(IpCidr::new(Ip::V6(node_ula()).to_smol(), 64));
        }
        let mut cur_v4 = None;
        if has_v4 && !want_dhcp {
            node.add_addr(IpCidr::new(Ip::V4(NODE_V4).to_smol(), 24));
            cur_v4 = Some(NODE_V4);
        }
        let route4 = has_v4 && !want_dhcp && src.chance(2, 3);
        let route6 = has_v6 && src.chance(1, 2);
        if route4 {
            node.iface.routes_mut().add_default_ipv4_route(smol4([10, 0, 0, 254])).unwrap();
        }
        if route6 {
            node.iface.routes_mut().add_default_ipv6_route(Ipv6Address::from(v6([0xfe80, 0, 0, 0, 0, 0, 0, 0xfe]))).unwrap();
        }
        let silent_env = med == Med::Ieee;
        let h1_answers = !silent_env && src.chance(3, 4);
        let gw_answers = !silent_env && src.chance(3, 4);
        let hosts = vec![
            Host { v4: [10, 0, 0, 2], ula: v6([0xfd00, 0, 0, 0, 0, 0, 0, 2]), ll: v6([0xfe80, 0, 0, 0, 0, 0, 0, 2]), mac: [0x02, 0, 0, 0, 0, 0x02], answers: h1_answers },
            Host { v4: [10, 0, 0, 3], ula: v6([0xfd00, 0, 0, 0, 0, 0, 0, 3]), ll: v6([0xfe80, 0, 0, 0, 0, 0, 0, 3]), mac: [0x02, 0, 0, 0, 0, 0x03], answers: false },
            Host { v4: [10, 0, 0, 254], ula: v6([0xfd00, 0, 0, 0, 0, 0, 0, 0xfe]), ll: v6([0xfe80, 0, 0, 0, 0, 0, 0, 0xfe]), mac: [0x02, 0, 0, 0, 0, 0xfe], answers: gw_answers },
        ];
        let loss8 = if silent_env { 8 } else { *src.pick(&[0u64, 0, 1, 3]) };
        let mut bed = Bed {
            node,
            med,
            now: 0,
            kind: String::new(),
            slaac,
            hosts,
            pending: VecDeque::new(),
            tcps: vec![],
            reached: BTreeSet::new(),
            has_v4,
            has_v6,
            route4,
            route6,
            loss8,
            udp: None,
            icmp: None,
            raw4: None,
            raw6: None,
            dhcp: None,
            dhcp_answers: false,
            dhcp_lease: 0,
            dhcp_t1t2: None,
            dhcp_nak: false,
            dhcp_server: 2,
            dns: None,
            dns_servers: vec![],
            dns_handles: vec![],
            dns_last_dst: BTreeMap::new(),
            router_answers: false,
            ra_lifetime: 0,
            ra_prefix: None,
            rs_seen: 0,
            slaac_addr: false,
            last_rs_at: -1,
            nd_until: -1,
            frag_pending: false,
            cur_v4,
        };
        let mut comps: Vec<&str> = vec![];

        // ---- DHCP first (so that its handle is stable and it runs before the others in egress order, like in the examples)
        if want_dhcp {
            let mut s = dhcpv4::Socket::new();
            if src.chance(1, 2) {
                let mut rc = dhcpv4::RetryConfig::default();
                rc.discover_timeout = Duration::from_secs(*src.pick(&[10u64, 1, 3]));
                rc.initial_request_timeout = Duration::from_millis(*src.pick(&[5000u64, 500, 1000]));
                rc.request_retries = *src.pick(&[5u16, 1, 2]);
                rc.min_renew_timeout = Duration::from_secs(*src.pick(&[60u64, 1, 5]));
                rc.max_renew_timeout = *src.pick(&[Duration::MAX, Duration::from_secs(2), Duration::from_secs(30)]);
                s.set_retry_config(rc);
            }
            if src.chance(1, 4) {
                s.set_max_lease_duration(Some(Duration::from_secs(*src.pick(&[4u64, 30, 600]))));
            }
            bed.dhcp = Some(bed.node.sockets.add(s));
            bed.dhcp_answers = src.chance(4, 5);
            bed.dhcp_lease = *src.pick(&[10u32, 2, 4, 60, 600, 86400]);
            bed.dhcp_t1t2 = if src.chance(1, 3) {
                let l = bed.dhcp_lease;
                // mostly ordered T1 < T2 < lease; half of the pairs are inverted, equal or at the lease
                // (the client must fall back to its defaults; poll_at has to stay a usable schedule
                // all the same). Decided from bits of the case seed: no further draw.
                match (seed >> 48) & 7 {
                    0 => Some((l / 2, l / 4)),
                    1 => Some((l / 2, l / 2)),
                    2 => Some((l * 3 / 4, l / 2)),
                    3 => Some((l / 4, l)),
                    _ => Some((l / 4, l / 2)),
                }
            } else {
                None
            };
            bed.dhcp_nak = src.chance(1, 8);
            bed.dhcp_server = if src.chance(3, 4) { 2 } else { 0 };
            comps.push("dhcp");
        }

        // ---- TCP
        let ntcp = src.weighted(&[2, 5, 2]);
        for k in 0..ntcp {
            let use_v6 = if bed.has_v4 && bed.has_v6 { src.chance(1, 3) } else { bed.has_v6 };
            let host = match src.weighted(&[6, 2, 1]) {
                0 => 0usize,
                1 => 1,
                _ => 3,
            };
            let raddr = bed.addr_of(host, use_v6, false);
            let laddr = if use_v6 { Ip::V6(node_ula()) } else { Ip::V4(if want_dhcp { LEASE_V4 } else { NODE_V4 }) };
            let rx = *src.pick(&[1024usize, 64, 256, 4096]);
            let tx = *src.pick(&[1024usize, 64, 256, 4096]);
            let mut s = tcp::Socket::new(tcp::SocketBuffer::new(vec![0u8; rx]), tcp::SocketBuffer::new(vec![0u8; tx]));
            if src.chance(1, 2) {
                s.set_keep_alive(Some(Duration::from_millis(*src.pick(&[1000u64, 50, 7_000, 75_000]))));
            }
            if src.chance(1, 2) {
                s.set_timeout(Some(Duration::from_millis(*src.pick(&[5_000u64, 300, 2_000, 60_000]))));
            }
            match src.weighted(&[3, 1, 1]) {
                0 => {}
                1 => s.set_ack_delay(None),
                _ => s.set_ack_delay(Some(Duration::from_millis(*src.pick(&[100u64, 1, 500])))),
            }
            s.set_nagle_enabled(src.chance(2, 3));
            s.set_congestion_control(match src.weighted(&[2, 1, 1]) {
                0 => tcp::CongestionControl::None,
                1 => tcp::CongestionControl::Reno,
                _ => tcp::CongestionControl::Cubic,
            });
            let active = src.chance(2, 3);
            let h = bed.node.sockets.add(s);
            let ctl = TcpCtl {
                h,
                raddr,
                laddr,
                lport: 4000 + k as u16,
                rport: 80 + k as u16,
                active,
                p_iss: src.u32(),
                p_seq: 0,
                iss: None,
                snd_max: 0,
                sock_ack: None,
                acked: None,
                win_delivered: None,
                win: *src.pick(&[4096u16, 65535, 300, 0]),
                auto_ack: match src.weighted(&[4, 2, 1]) {
                    0 => 2,
                    1 => 1,
                    _ => 0,
                },
                auto_fin: src.chance(1, 2),
                accept: src.chance(5, 6),
                fin_sent: false,
                syn_sent: false,
            };
            bed.tcps.push(ctl);
            bed.tcp_open(k, ctx);
        }
        if ntcp > 0 {
            comps.push(if ntcp == 1 { "tcp" } else { "tcp2" });
        }

        // ---- DNS
        if src.chance(1, 3) {
            let n = src.usize(1, 3);
            let mut servers = vec![];
            for _ in 0..n {
                let use_v6 = if bed.has_v4 && bed.has_v6 { src.chance(1, 3) } else { bed.has_v6 };
                let host = match src.weighted(&[4, 2, 2, 1]) {
                    0 => 0usize,
                    1 => 1,
                    2 => 2,
                    _ => 3,
                };
                let a = bed.addr_of(host, use_v6, false);
                let answers = !silent_env && host != 1 && src.chance(1, 2);
                if servers.iter().any(|s: &(Ip, bool)| s.0 == a) {
                    continue;
                }
                servers.push((a, answers));
            }
            let addrs: Vec<IpAddress> = servers.iter().map(|s| s.0.to_smol()).collect();
            let s = dns::Socket::new(&addrs, vec![]);
            bed.dns = Some(bed.node.sockets.add(s));
            bed.dns_servers = servers;
            comps.push(if bed.dns_servers.len() == 1 { "dns1" } else { "dnsN" });
        }

        // ---- datagram sockets
        if src.chance(1, 2) {
            let s = udp::Socket::new(
                udp::PacketBuffer::new(vec![udp::PacketMetadata::EMPTY; 4], vec![0u8; 2048]),
                udp::PacketBuffer::new(vec![udp::PacketMetadata::EMPTY; 4], vec![0u8; 9000]),
            );
            let h = bed.node.sockets.add(s);
            bed.node.sockets.get_mut::<udp::Socket>(h).bind(5000).unwrap();
            bed.udp = Some(h);
            comps.push("udp");
        }
        if src.chance(1, 4) {
            let s = icmp::Socket::new(
                icmp::PacketBuffer::new(vec![icmp::PacketMetadata::EMPTY; 4], vec![0u8; 1024]),
                icmp::PacketBuffer::new(vec![icmp::PacketMetadata::EMPTY; 4], vec![0u8; 4096]),
            );
            let h = bed.node.sockets.add(s);
            bed.node.sockets.get_mut::<icmp::Socket>(h).bind(icmp::Endpoint::Ident(0x1234)).unwrap();
            bed.icmp = Some(h);
            comps.push("icmp");
        }
        if med != Med::Ieee && src.chance(1, 4) {
            if bed.has_v4 {
                let s = raw::Socket::new(
                    Some(IpVersion::Ipv4),
                    Some(IpProtocol::Unknown(253)),
                    raw::PacketBuffer::new(vec![raw::PacketMetadata::EMPTY; 2], vec![0u8; 512]),
                    raw::PacketBuffer::new(vec![raw::PacketMetadata::EMPTY; 4], vec![0u8; 9000]),
                );
                bed.raw4 = Some(bed.node.sockets.add(s));
            }
            if bed.has_v6 {
                let s = raw::Socket::new(
                    Some(IpVersion::Ipv6),
                    Some(IpProtocol::Unknown(253)),
                    raw::PacketBuffer::new(vec![raw::PacketMetadata::EMPTY; 2], vec![0u8; 512]),
                    raw::PacketBuffer::new(vec![raw::PacketMetadata::EMPTY; 4], vec![0u8; 4096]),
                );
                bed.raw6 = Some(bed.node.sockets.add(s));
            }
            comps.push("raw");
        }
        if slaac {
            bed.router_answers = !silent_env && src.chance(2, 3);
            bed.ra_lifetime = *src.pick(&[1800u16, 0, 5, 30]);
            bed.ra_prefix = if src.chance(3, 4) {
                let valid = *src.pick(&[86400u32, 3, 20, 600, 0]);
                let pref = if src.chance(1, 2) { valid } else { valid / 2 };
                Some((valid, pref))
            } else {
                None
            };
        }
        if comps.is_empty() {
            comps.push("bare");
        }
        bed.kind = format!(
            "{}{}:{}",
            match med {
                Med::Eth => "eth",
                Med::Ip => "ip",
                Med::Ieee => "ieee",
            },
            if slaac { "+slaac" } else { "" },
            comps.join("+")
        );
        let desc = format!(
            "{} mtu={} v4={} v6={} route4={} route6={} loss={}/8 H1-answers={} GW-answers={} dhcp={} (answers={} lease={}s t1t2={:?} nak={} server=host{}) dns-servers={:?} slaac={} (router-answers={} ra-lifetime={} prefix={:?}) tcp={}",
            bed.kind,
            mtu,
            bed.has_v4,
            bed.has_v6,
            bed.route4,
            bed.route6,
            bed.loss8,
            h1_answers,
            gw_answers,
            bed.dhcp.is_some(),
            bed.dhcp_answers,
            bed.dhcp_lease,
            bed.dhcp_t1t2,
            bed.dhcp_nak,
            bed.dhcp_server,
            bed.dns_servers.iter().map(|s| format!("{}{}", s.0, if s.1 { "" } else { "(silent)" })).collect::<Vec<_>>(),
            slaac,
            bed.router_answers,
            bed.ra_lifetime,
            bed.ra_prefix,
            bed.tcps
                .iter()
                .map(|t| format!(
                    "[{} {}:{} auto_ack={} auto_fin={} accept={} win={}]",
                    if t.active { "connect" } else { "listen" },
                    t.raddr,
                    t.rport,
                    t.auto_ack,
                    t.auto_fin,
                    t.accept,
                    t.win
                ))
                .collect::<Vec<_>>()
                .join(" ")
        );
        ctx.note(|| desc);
        bed
    }

    /// Address of host `host` (3 = off-link) in the wanted family.
    fn addr_of(&self, host: usize, v6: bool, ll: bool) -> Ip {
        if host >= 3 {
            return if v6 { Ip::V6(off_v6()) } else { Ip::V4(OFF_V4) };
        }
        let h = &self.hosts[host];
        if v6 {
            Ip::V6(if ll { h.ll } else { h.ula })
        } else {
            Ip::V4(h.v4)
        }
    }

    /// Next hop the interface uses towards `a` as far as the environment can tell.
    fn next_hop(&self, a: &Ip) -> Ip {
        let on_link = match a {
            Ip::V4(x) => self.cur_v4.is_some() && x[..3] == [10, 0, 0],
            Ip::V6(x) => x[..8] == node_ula()[..8] || x[..8] == node_ll()[..8] || x[..8] == slaac_prefix()[..8],
        };
        if on_link {
            *a
        } else if a.is_v4() {
            Ip::V4(self.hosts[2].v4)
        } else {
            Ip::V6(self.hosts[2].ll)
        }
    }

    /// Best-effort: which socket kind is resolving `target` (used to name early neighbour solicitations).
    fn nd_owner(&self, target: &Ip) -> &'static str {
        if self.dns.is_some() && !self.dns_handles.is_empty() && self.dns_servers.iter().any(|s| self.next_hop(&s.0) == *target) {
            return "dns";
        }
        if self.dhcp.is_some() && (Ip::V4(self.hosts[self.dhcp_server].v4) == *target) {
            return "dhcp";
        }
        for t in &self.tcps {
            let st = self.node.sockets.get::<tcp::Socket>(t.h).state();
            if !matches!(st, tcp::State::Closed | tcp::State::Listen) && self.next_hop(&t.raddr) == *target {
                return "tcp";
            }
        }
        "datagram"
    }

    fn tcp_open(&mut self, k: usize, ctx: &mut Ctx) {
        let t = &mut self.tcps[k];
        let st = self.node.sockets.get::<tcp::Socket>(t.h).state();
        if st != tcp::State::Closed {
            return;
        }
        t.iss = None;
        t.snd_max = 0;
        t.sock_ack = None;
        t.acked = None;
        t.win_delivered = None;
        t.fin_sent = false;
        t.syn_sent = false;
        t.p_iss = t.p_iss.wrapping_add(100_000);
        t.p_seq = t.p_iss;
        if t.active {
            let remote = (t.raddr.to_smol(), t.rport);
            let lport = t.lport;
            let h = t.h;
            let cx = self.node.iface.context();
            let r = self.node.sockets.get_mut::<tcp::Socket>(h).connect(cx, remote, lport);
            ctx.note(|| format!("app: tcp#{} connect({}:{}) -> {:?}", k, remote.0, remote.1, r));
        } else {
            let lport = t.lport;
            let r = self.node.sockets.get_mut::<tcp::Socket>(t.h).listen(lport);
            ctx.note(|| format!("app: tcp#{} listen({}) -> {:?}", k, lport, r));
        }
    }

    // ------------------------------------------------------------------ basic operations

    pub fn poll_at(&mut self) -> Option<i64> {
        self.node.poll_at(us(self.now)).map(|t| t.total_micros())
    }

    /// Observable state that a poll without I/O may legitimately change.
    pub fn fingerprint(&self) -> Vec<u64> {
        let mut v = vec![];
        for t in &self.tcps {
            let s = self.node.sockets.get::<tcp::Socket>(t.h);
            v.push(s.state() as u64);
            v.push(s.send_queue() as u64);
            v.push(s.recv_queue() as u64);
        }
        if let Some(h) = self.udp {
            v.push(self.node.sockets.get::<udp::Socket>(h).send_queue() as u64);
        }
        if let Some(h) = self.icmp {
            v.push(self.node.sockets.get::<icmp::Socket>(h).send_queue() as u64);
        }
        for h in [self.raw4, self.raw6].into_iter().flatten() {
            v.push(self.node.sockets.get::<raw::Socket>(h).send_queue() as u64);
        }
        v.push(self.node.iface.ip_addrs().len() as u64);
        v
    }

    /// Names what differs between two fingerprints taken with `fingerprint()`.
    pub fn fingerprint_diff(&self, a: &[u64], b: &[u64]) -> String {
        let mut out = vec![];
        let mut i = 0;
        for _ in &self.tcps {
            if a[i] != b[i] {
                out.push("tcp-state".to_string());
            } else if a[i + 1] != b[i + 1] || a[i + 2] != b[i + 2] {
                out.push("tcp-queues".to_string());
            }
            i += 3;
        }
        if self.udp.is_some() {
            if a[i] != b[i] {
                out.push("udp-queue".into());
            }
            i += 1;
        }
        if self.icmp.is_some() {
            if a[i] != b[i] {
                out.push("icmp-queue".into());
            }
            i += 1;
        }
        for _ in [self.raw4, self.raw6].into_iter().flatten() {
            if a[i] != b[i] {
                out.push("raw-queue".into());
            }
            i += 1;
        }
        if a[i] != b[i] {
            out.push("interface-addresses".into());
        }
        out.sort();
        out.dedup();
        out.join("+")
    }

    pub fn describe(&self) -> String {
        let mut s = format!("addrs={:?}", self.node.iface.ip_addrs().iter().map(|c| c.to_string()).collect::<Vec<_>>());
        for (k, t) in self.tcps.iter().enumerate() {
            let so = self.node.sockets.get::<tcp::Socket>(t.h);
            s.push_str(&format!(
                " tcp#{}[{} txq={} rxq={} keep_alive={:?} timeout={:?} ack_delay={:?} peer-win-delivered={:?}]",
                k,
                so.state(),
                so.send_queue(),
                so.recv_queue(),
                so.keep_alive().map(|d| d.total_millis()),
                so.timeout().map(|d| d.total_millis()),
                so.ack_delay().map(|d| d.total_millis()),
                t.win_delivered
            ));
        }
        if let Some(h) = self.udp {
            s.push_str(&format!(" udp[txq={}]", self.node.sockets.get::<udp::Socket>(h).send_queue()));
        }
        if let Some(h) = self.icmp {
            s.push_str(&format!(" icmp[txq={}]", self.node.sockets.get::<icmp::Socket>(h).send_queue()));
        }
        for h in [self.raw4, self.raw6].into_iter().flatten() {
            s.push_str(&format!(" raw[txq={}]", self.node.sockets.get::<raw::Socket>(h).send_queue()));
        }
        if self.dhcp.is_some() {
            s.push_str(" dhcp[present]");
        }
        if self.dns.is_some() {
            s.push_str(&format!(" dns[{} queries tracked]", self.dns_handles.len()));
        }
        if self.slaac {
            s.push_str(&format!(" slaac[{} router solicitations seen]", self.rs_seen));
        }
        s
    }

    /// Which timer sources are plausibly armed (bit mask over SRC_NAMES).
    pub fn armed(&self) -> u16 {
        let mut m = 0u16;
        for t in &self.tcps {
            let s = self.node.sockets.get::<tcp::Socket>(t.h);
            let st = s.state();
            use tcp::State::*;
            let live = !matches!(st, Closed | Listen | TimeWait);
            let unacked = match (t.iss, t.acked) {
                (Some(_), Some(a)) => seq_lt(a, t.snd_max),
                (Some(_), None) => true,
                _ => false,
            };
            if live && unacked {
                m |= S_RETX;
            }
            if live && s.keep_alive().is_some() && !unacked {
                m |= S_KEEP;
            }
            if s.timeout().is_some() && !matches!(st, Closed | Listen) {
                m |= S_TMO;
            }
            if live && s.ack_delay().is_some() {
                if let Some(a) = t.sock_ack {
                    if seq_lt(a, t.p_seq) {
                        m |= S_DACK;
                    }
                }
            }
            if matches!(st, Established | CloseWait) && t.win_delivered == Some(0) && s.send_queue() > 0 {
                m |= S_ZWP;
            }
            if st == TimeWait {
                m |= S_TW;
            }
        }
        if self.dhcp.is_some() {
            m |= S_DHCP;
        }
        if !self.dns_handles.is_empty() {
            m |= S_DNS;
        }
        if self.now < self.nd_until {
            m |= S_ND;
        }
        if self.frag_pending {
            m |= S_FRAG;
        }
        if self.slaac {
            m |= S_SLAAC;
        }
        m
    }

    /// Destructive: find the component that holds the deadline `past` (<= now). Sockets are removed one
    /// by one until the deadline moves into the future; a sentinel socket with a known future deadline
    /// keeps the minimum over sockets defined, so that the answer does not depend on how
    /// `Interface::poll_at` combines "no socket deadline" with the SLAAC deadline.
    pub fn spin_culprit(&mut self, past: i64) -> String {
        let now = self.now;
        if self.slaac && self.rs_seen >= 3 && past == self.last_rs_at + 4 * SEC {
            return "slaac".into();
        }
        let mut list: Vec<(SocketHandle, String)> = vec![];
        for t in self.tcps.iter() {
            let st = self.node.sockets.get::<tcp::Socket>(t.h).state();
            list.push((t.h, format!("tcp:{}", st)));
        }
        if let Some(h) = self.udp {
            list.push((h, "udp".into()));
        }
        if let Some(h) = self.icmp {
            list.push((h, "icmp".into()));
        }
        if let Some(h) = self.raw4 {
            list.push((h, "raw".into()));
        }
        if let Some(h) = self.raw6 {
            list.push((h, "raw".into()));
        }
        if let Some(h) = self.dns {
            list.push((h, "dns".into()));
        }
        if let Some(h) = self.dhcp {
            list.push((h, "dhcp".into()));
        }
        // sentinel: a DNS query to a multicast/broadcast "server" is transmitted at once and retried in 1 s
        let server = if self.has_v6 { Ip::V6(all_nodes()) } else { Ip::V4([255, 255, 255, 255]) };
        let mut s = dns::Socket::new(&[server.to_smol()], vec![]);
        let _ = s.start_query(self.node.iface.context(), "sentinel.example", DnsQueryType::A);
        self.node.sockets.add(s);
        let _ = self.node.poll(us(now), None);
        for (h, name) in list {
            let _ = self.node.sockets.remove(h);
            match self.node.poll_at(us(now)).map(|t| t.total_micros()) {
                Some(d) if d <= now => {}
                _ => return name,
            }
        }
        // only the sentinel is left: the interface itself reports the past deadline
        if self.frag_pending {
            "fragmenter".into()
        } else if self.slaac {
            "slaac".into()
        } else {
            "interface".into()
        }
    }

    // ------------------------------------------------------------------ application side

    /// dhcp.poll() and applying the configuration, as examples/dhcp_client.rs does. True when an event was applied.
    pub fn app_dhcp_event(&mut self, ctx: &mut Ctx) -> bool {
        let Some(h) = self.dhcp else { return false };
        enum Ev {
            Conf(Ipv4Cidr, Option<Ipv4Address>),
            Deconf,
        }
        let ev = match self.node.sockets.get_mut::<dhcpv4::Socket>(h).poll() {
            None => return false,
            Some(dhcpv4::Event::Deconfigured) => Ev::Deconf,
            Some(dhcpv4::Event::Configured(c)) => Ev::Conf(c.address, c.router),
        };
        match ev {
            Ev::Conf(cidr, router) => {
                self.node.iface.update_ip_addrs(|addrs| {
                    addrs.retain(|a| !matches!(a, IpCidr::Ipv4(_)));
                    let _ = addrs.push(IpCidr::Ipv4(cidr));
                });
                match router {
                    Some(r) => {
                        let _ = self.node.iface.routes_mut().add_default_ipv4_route(r);
                        self.route4 = true;
                    }
                    None => {
                        self.node.iface.routes_mut().remove_default_ipv4_route();
                        self.route4 = false;
                    }
                }
                self.cur_v4 = Some(cidr.address().octets());
                self.reached.insert("dhcp:configured".into());
                ctx.note(|| format!("app: DHCP configured {} router {:?}", cidr, router));
            }
            Ev::Deconf => {
                self.node.iface.update_ip_addrs(|addrs| addrs.retain(|a| !matches!(a, IpCidr::Ipv4(_))));
                self.node.iface.routes_mut().remove_default_ipv4_route();
                self.route4 = false;
                if self.cur_v4.is_some() {
                    self.reached.insert("dhcp:deconfigured-after-lease".into());
                }
                self.cur_v4 = None;
                ctx.note(|| "app: DHCP deconfigured".to_string());
            }
        }
        true
    }

    pub fn observe_slaac(&mut self) {
        if !self.slaac {
            return;
        }
        let pfx = slaac_prefix();
        let has = self.node.iface.ip_addrs().iter().any(|c| match c {
            IpCidr::Ipv6(c) => c.address().octets()[..8] == pfx[..8],
            _ => false,
        });
        if has {
            self.reached.insert("slaac:address-configured".into());
            self.slaac_addr = true;
        } else if self.slaac_addr {
            self.reached.insert("slaac:address-expired".into());
            self.slaac_addr = false;
        }
    }

    /// The application looks at its DNS queries (frees finished ones).
    pub fn app_dns_collect(&mut self, ctx: &mut Ctx) {
        let Some(h) = self.dns else { return };
        let sock = self.node.sockets.get_mut::<dns::Socket>(h);
        let mut keep = vec![];
        for q in self.dns_handles.drain(..) {
            match sock.get_query_result(q) {
                Err(dns::GetQueryResultError::Pending) => keep.push(q),
                Ok(_) => {
                    self.reached.insert("dns:answered".into());
                    ctx.note(|| "app: DNS query completed".to_string());
                }
                Err(dns::GetQueryResultError::Failed) => {
                    self.reached.insert("dns:failed".into());
                    ctx.note(|| "app: DNS query failed".to_string());
                }
            }
        }
        self.dns_handles = keep;
    }

    fn pick_dest(&mut self, src: &mut Src) -> Option<(Ip, &'static str)> {
        // destination class: resolved-or-not host, silent host, off-link, broadcast, multicast
        let use_v6 = if self.cur_v4.is_some() && self.has_v6 { src.chance(1, 3) } else { self.has_v6 && self.cur_v4.is_none() };
        if !use_v6 && !self.has_v4 {
            return None;
        }
        let c = src.weighted(&[4, 4, 2, 1, 1]);
        Some(match c {
            0 => (self.addr_of(0, use_v6, false), "H1"),
            1 => (self.addr_of(1, use_v6, false), "H2(silent)"),
            2 => (self.addr_of(3, use_v6, false), "off-link"),
            3 => {
                if use_v6 {
                    (Ip::V6(all_nodes()), "multicast")
                } else {
                    (Ip::V4([255, 255, 255, 255]), "broadcast")
                }
            }
            _ => {
                if use_v6 {
                    (Ip::V6(all_nodes()), "multicast")
                } else if self.med == Med::Eth {
                    (Ip::V4([224, 0, 0, 251]), "multicast")
                } else {
                    (Ip::V4([10, 0, 0, 255]), "broadcast")
                }
            }
        })
    }

    fn note_unroutable(&mut self, dst: &Ip, class: &str) {
        // a send that cannot be routed makes the interface silence the socket for a second
        if class == "off-link" {
            let routed = if dst.is_v4() { self.route4 } else { self.route6 };
            if !routed && self.med != Med::Ip {
                self.nd_until = self.nd_until.max(self.now + SEC);
            }
        }
    }

    /// One application call on a drawn socket.
    pub fn app_action(&mut self, src: &mut Src, ctx: &mut Ctx) {
        let mut opts: Vec<u8> = vec![];
        if !self.tcps.is_empty() {
            opts.extend_from_slice(&[0, 0, 0]);
        }
        if self.udp.is_some() {
            opts.extend_from_slice(&[1, 1]);
        }
        if self.icmp.is_some() {
            opts.push(2);
        }
        if self.raw4.is_some() || self.raw6.is_some() {
            opts.push(3);
        }
        if self.dns.is_some() {
            opts.extend_from_slice(&[4, 4]);
        }
        if self.dhcp.is_some() {
            opts.push(5);
        }
        if opts.is_empty() {
            return;
        }
        let which = *src.pick(&opts);
        match which {
            0 => {
                let k = src.usize(0, self.tcps.len() - 1);
                let h = self.tcps[k].h;
                let a = src.weighted(&[6, 3, 2, 1, 1, 1, 2, 1]);
                let s = self.node.sockets.get_mut::<tcp::Socket>(h);
                match a {
                    0 => {
                        let n = *src.pick(&[100usize, 1, 10, 600, 1500, 4096]);
                        let data = vec![0x5au8; n];
                        let r = s.send_slice(&data);
                        ctx.note(|| format!("app: tcp#{} send_slice({}) -> {:?}", k, n, r));
                    }
                    1 => {
                        s.close();
                        ctx.note(|| format!("app: tcp#{} close()", k));
                    }
                    2 => {
                        let mut buf = vec![0u8; *src.pick(&[4096usize, 1, 100])];
                        let r = s.recv_slice(&mut buf);
                        ctx.note(|| format!("app: tcp#{} recv_slice -> {:?}", k, r));
                    }
                    3 => {
                        let v = *src.pick(&[Some(1000u64), None, Some(50), Some(10_000)]);
                        s.set_keep_alive(v.map(Duration::from_millis));
                        ctx.note(|| format!("app: tcp#{} set_keep_alive({:?} ms)", k, v));
                    }
                    4 => {
                        let v = *src.pick(&[Some(3000u64), None, Some(200), Some(30_000)]);
                        s.set_timeout(v.map(Duration::from_millis));
                        ctx.note(|| format!("app: tcp#{} set_timeout({:?} ms)", k, v));
                    }
                    5 => {
                        s.abort();
                        ctx.note(|| format!("app: tcp#{} abort()", k));
                    }
                    6 => {
                        self.tcp_open(k, ctx);
                    }
                    _ => {
                        let v = *src.pick(&[Some(10u64), None, Some(200)]);
                        s.set_ack_delay(v.map(Duration::from_millis));
                        ctx.note(|| format!("app: tcp#{} set_ack_delay({:?} ms)", k, v));
                    }
                }
            }
            1 => {
                let Some((dst, class)) = self.pick_dest(src) else { return };
                let n = match src.weighted(&[4, 2, 2, 1]) {
                    0 => src.usize(1, 200),
                    1 => src.usize(1000, 1472),
                    2 => src.usize(1473, 4000),
                    _ => src.usize(4001, 4200),
                };
                let cnt = if src.chance(1, 4) { src.usize(2, 3) } else { 1 };
                let h = self.udp.unwrap();
                for _ in 0..cnt {
                    let r = self.node.sockets.get_mut::<udp::Socket>(h).send_slice(&vec![0x77u8; n], (dst.to_smol(), 9));
                    ctx.note(|| format!("app: udp send {} bytes to {} ({}) -> {:?}", n, dst, class, r));
                }
                self.note_unroutable(&dst, class);
            }
            2 => {
                let Some((dst, class)) = self.pick_dest(src) else { return };
                let n = *src.pick(&[16usize, 0, 600, 1800]);
                let echo = Icmp::echo(!dst.is_v4(), true, 0x1234, 1, vec![0x33; n]);
                let bytes = match dst {
                    Ip::V4(_) => echo.encode4(),
                    Ip::V6(_) => echo.encode6(&Ip::V6(node_ula()), &dst),
                };
                let h = self.icmp.unwrap();
                let r = self.node.sockets.get_mut::<icmp::Socket>(h).send_slice(&bytes, dst.to_smol());
                ctx.note(|| format!("app: icmp echo request ({} data bytes) to {} ({}) -> {:?}", n, dst, class, r));
                self.note_unroutable(&dst, class);
            }
            3 => {
                let Some((dst, class)) = self.pick_dest(src) else { return };
                let n = *src.pick(&[20usize, 0, 1200, 2500]);
                let (h, pkt) = match dst {
                    Ip::V4(d) => {
                        let Some(h) = self.raw4 else { return };
                        let Some(me) = self.cur_v4 else { return };
                        (h, Ip4::new(me, d, 253, vec![0x11; n]).encode())
                    }
                    Ip::V6(d) => {
                        let Some(h) = self.raw6 else { return };
                        (h, Ip6::new(node_ula(), d, 253, vec![0x11; n.min(1200)]).encode())
                    }
                };
                let r = self.node.sockets.get_mut::<raw::Socket>(h).send_slice(&pkt);
                ctx.note(|| format!("app: raw send {} payload bytes to {} ({}) -> {:?}", n, dst, class, r));
                self.note_unroutable(&dst, class);
            }
            4 => {
                let h = self.dns.unwrap();
                if !self.dns_handles.is_empty() && src.chance(1, 5) {
                    let q = self.dns_handles.remove(0);
                    self.node.sockets.get_mut::<dns::Socket>(h).cancel_query(q);
                    ctx.note(|| "app: dns cancel_query".to_string());
                } else if self.dns_handles.len() < 3 {
                    let name = *src.pick(&["example.org", "a.b.example.net", "host.example.com"]);
                    let ty = if src.chance(1, 3) { DnsQueryType::Aaaa } else { DnsQueryType::A };
                    let cx = self.node.iface.context();
                    let r = self.node.sockets.get_mut::<dns::Socket>(h).start_query(cx, name, ty);
                    ctx.note(|| format!("app: dns start_query({}, {:?}) -> {:?}", name, ty, r.is_ok()));
                    if let Ok(q) = r {
                        self.dns_handles.push(q);
                    }
                }
            }
            _ => {
                let h = self.dhcp.unwrap();
                self.node.sockets.get_mut::<dhcpv4::Socket>(h).reset();
                ctx.note(|| "app: dhcp reset()".to_string());
            }
        }
    }

    // ------------------------------------------------------------------ environment

    fn lost(&self, src: &mut Src) -> bool {
        self.loss8 > 0 && src.draw(7) < self.loss8
    }

    fn wrap(&self, ip: IpPkt, src_mac: [u8; 6], dst_mac: [u8; 6]) -> Vec<u8> {
        match self.med {
            Med::Eth => Eth {
                dst: dst_mac,
                src: src_mac,
                ethertype: if matches!(ip, IpPkt::V4(_)) { ETH_IPV4 } else { ETH_IPV6 },
                payload: ip.encode(),
            }
            .encode(),
            _ => ip.encode(),
        }
    }

    fn mac_toward(&self, addr: &Ip) -> [u8; 6] {
        for h in &self.hosts {
            if Ip::V4(h.v4) == *addr || Ip::V6(h.ula) == *addr || Ip::V6(h.ll) == *addr {
                return h.mac;
            }
        }
        self.hosts[2].mac
    }

    pub fn deliver(&mut self, k: usize, ctx: &mut Ctx) {
        for _ in 0..k {
            let Some(p) = self.pending.pop_front() else { break };
            if let PendNote::Tcp { idx, ack, win } = p.note {
                let t = &mut self.tcps[idx];
                if let Some(a) = ack {
                    if t.acked.map(|o| seq_lt(o, a)).unwrap_or(true) {
                        t.acked = Some(a);
                    }
                }
                t.win_delivered = Some(win);
            }
            let now = self.now;
            ctx.note(|| format!("t={} deliver: {}", now, p.what));
            self.node.inject(p.frame);
        }
    }

    fn queue_tcp(&mut self, idx: usize, flags: u8, payload: Vec<u8>, with_ack: bool, ack_override: Option<u32>, what: &str) {
        let t = &mut self.tcps[idx];
        let ack = if with_ack { Some(ack_override.unwrap_or(t.snd_max)) } else { None };
        let mut seg = Tcp::new(t.rport, t.lport, t.p_seq, ack, flags, t.win);
        seg.payload = payload;
        if flags & SYN != 0 {
            seg.seq = t.p_iss;
            seg.opts.push(TcpOpt::Mss(1000));
            t.p_seq = t.p_iss.wrapping_add(1);
        } else {
            t.p_seq = t.p_seq.wrapping_add(seg.payload.len() as u32);
            if flags & FIN != 0 {
                t.p_seq = t.p_seq.wrapping_add(1);
            }
        }
        let l4 = seg.encode(&t.raddr, &t.laddr);
        let ip = IpPkt::build(t.raddr, t.laddr, PROTO_TCP, 64, l4);
        let what = format!("peer#{} {} {}", idx, what, seg);
        let note = PendNote::Tcp { idx, ack, win: seg.win };
        let raddr = t.raddr;
        let mac = self.mac_toward(&raddr);
        let frame = self.wrap(ip, mac, NODE_MAC);
        self.pending.push_back(Pend { frame, what, note });
    }

    /// A peer / router / stranger does something on its own. False when nothing applicable.
    pub fn env_action(&mut self, src: &mut Src, ctx: &mut Ctx) -> bool {
        if self.med == Med::Ieee {
            return false;
        }
        let mut opts: Vec<u8> = vec![];
        if !self.tcps.is_empty() {
            opts.extend_from_slice(&[0, 0, 0, 0]);
        }
        if self.slaac {
            opts.push(1);
        }
        opts.push(2);
        match *src.pick(&opts) {
            0 => {
                let k = src.usize(0, self.tcps.len() - 1);
                let a = src.weighted(&[4, 5, 3, 2, 2, 1, 2, 1]);
                let have = self.tcps[k].iss.is_some();
                match a {
                    0 => {
                        // acknowledge everything, window drawn
                        if !have {
                            return false;
                        }
                        self.tcps[k].win = *src.pick(&[4096u16, 0, 65535, 1, 300]);
                        self.queue_tcp(k, 0, vec![], true, None, "acks everything");
                    }
                    1 => {
                        // data towards the socket
                        if !have {
                            return false;
                        }
                        let n = *src.pick(&[10usize, 1, 400, 1000]);
                        self.queue_tcp(k, PSH, vec![0x42; n], true, None, "sends data");
                    }
                    2 => {
                        // triple duplicate ACK of what was delivered before
                        if !have {
                            return false;
                        }
                        let una = self.tcps[k].acked.unwrap_or(self.tcps[k].iss.unwrap().wrapping_add(1));
                        for _ in 0..3 {
                            self.queue_tcp(k, 0, vec![], true, Some(una), "duplicate ack");
                        }
                    }
                    3 => {
                        if !have || self.tcps[k].fin_sent {
                            return false;
                        }
                        self.tcps[k].fin_sent = true;
                        self.queue_tcp(k, FIN, vec![], true, None, "closes");
                    }
                    4 => {
                        // SYN towards a listening socket
                        if self.tcps[k].syn_sent && src.chance(2, 3) {
                            return false;
                        }
                        // simultaneous open only now and then
                        if self.tcps[k].active && src.chance(3, 4) {
                            return false;
                        }
                        self.tcps[k].syn_sent = true;
                        self.queue_tcp(k, SYN, vec![], false, None, "opens");
                    }
                    5 => {
                        if !have {
                            return false;
                        }
                        self.queue_tcp(k, RST, vec![], true, None, "resets");
                    }
                    6 => {
                        // partial acknowledgment with a zero window
                        if !have {
                            return false;
                        }
                        let t = &self.tcps[k];
                        let una = t.acked.unwrap_or(t.iss.unwrap().wrapping_add(1));
                        let dist = seq_diff(t.snd_max, una).max(0) as u32;
                        let a = una.wrapping_add(dist / 2);
                        self.tcps[k].win = 0;
                        self.queue_tcp(k, 0, vec![], true, Some(a), "acks half, window 0");
                    }
                    _ => {
                        let on = src.draw(2) as u8;
                        self.tcps[k].auto_ack = on;
                        ctx.note(|| format!("peer#{} auto-ack mode {}", k, on));
                        return false;
                    }
                }
                true
            }
            1 => {
                // unsolicited router advertisement, lifetimes drawn
                let lt = *src.pick(&[1800u16, 0, 5, 30]);
                let pfx = if src.chance(3, 4) {
                    let valid = *src.pick(&[86400u32, 0, 3, 20, 600]);
                    Some((valid, if src.chance(1, 2) { valid } else { valid / 2 }))
                } else {
                    None
                };
                let f = self.ra_frame(lt, pfx);
                self.pending.push_back(Pend { frame: f, what: format!("router advertisement lifetime={} prefix={:?}", lt, pfx), note: PendNote::None });
                true
            }
            _ => {
                // a neighbour announces itself (gratuitous ARP request / unsolicited NA) - or stops/starts answering
                if src.chance(1, 2) {
                    let on = src.bool();
                    self.hosts[0].answers = on;
                    ctx.note(|| format!("env: H1 answers = {}", on));
                    return false;
                }
                if self.med != Med::Eth {
                    return false;
                }
                let h = self.hosts[0].clone();
                if let Some(me) = self.cur_v4 {
                    let a = Arp { op: 1, sha: h.mac, spa: h.v4, tha: [0; 6], tpa: me };
                    let f = Eth { dst: MAC_BROADCAST, src: h.mac, ethertype: ETH_ARP, payload: a.encode() }.encode();
                    self.pending.push_back(Pend { frame: f, what: "ARP request from H1 for the node".into(), note: PendNote::None });
                    true
                } else {
                    false
                }
            }
        }
    }

    fn ra_frame(&self, lifetime: u16, prefix: Option<(u32, u32)>) -> Vec<u8> {
        let r = &self.hosts[2];
        let mut body = vec![0u8; 8]; // reachable time, retrans timer
        body.extend_from_slice(&encode_nd_opt(1, &r.mac));
        if let Some((valid, pref)) = prefix {
            let mut o = vec![64u8, 0xc0];
            o.extend_from_slice(&valid.to_be_bytes());
            o.extend_from_slice(&pref.to_be_bytes());
            o.extend_from_slice(&[0; 4]);
            o.extend_from_slice(&slaac_prefix());
            body.extend_from_slice(&encode_nd_opt(3, &o));
        }
        let lt = lifetime.to_be_bytes();
        let m = Icmp { ty: ND_RA, code: 0, rest: [64, 0, lt[0], lt[1]], body };
        let (s, d) = (Ip::V6(r.ll), Ip::V6(all_nodes()));
        let ip = IpPkt::build(s, d, PROTO_ICMPV6, 255, m.encode6(&s, &d));
        self.wrap(ip, r.mac, mac_for_multicast(&d))
    }

    // ------------------------------------------------------------------ emitted frames

    pub fn on_frame(&mut self, f: &[u8], src: &mut Src) -> FrameInfo {
        match self.med {
            Med::Ieee => fi("ieee802154:frame"),
            Med::Ip => self.on_ip(f, src),
            Med::Eth => {
                let Ok(e) = decode_eth(f) else { return fi("undecodable-ethernet") };
                match e.ethertype {
                    ETH_ARP => {
                        let Ok(a) = decode_arp(&e.payload) else { return fi("undecodable-arp") };
                        if a.op == 1 {
                            self.nd_until = self.nd_until.max(self.now + SEC);
                            self.reached.insert("sent:arp-request".into());
                            let host = self.hosts.iter().find(|h| h.v4 == a.tpa && h.answers).cloned();
                            if let Some(h) = host {
                                if !self.lost(src) {
                                    let r = Arp { op: 2, sha: h.mac, spa: h.v4, tha: a.sha, tpa: a.spa };
                                    let fr = Eth { dst: a.sha, src: h.mac, ethertype: ETH_ARP, payload: r.encode() }.encode();
                                    self.pending.push_back(Pend { frame: fr, what: format!("ARP reply {} is-at host", Ip::V4(h.v4)), note: PendNote::None });
                                }
                            }
                            let owner = self.nd_owner(&Ip::V4(a.tpa));
                            fi(format!("{}:arp-request", owner))
                        } else {
                            fi("interface:arp-reply")
                        }
                    }
                    ETH_IPV4 | ETH_IPV6 => self.on_ip(&e.payload, src),
                    _ => fi("ethernet-other"),
                }
            }
        }
    }

    fn on_ip(&mut self, b: &[u8], src: &mut Src) -> FrameInfo {
        let Ok(ip) = decode_ip(b, true) else { return fi("undecodable-ip") };
        if let IpPkt::V4(p) = &ip {
            if p.frag_off != 0 {
                self.frag_pending = p.mf;
                self.reached.insert("sent:ipv4-fragment".into());
                return fi("fragmenter:ipv4-fragment");
            }
            if p.mf {
                self.frag_pending = true;
                return fi(format!("datagram:ipv4-first-fragment-proto{}", p.proto));
            }
        }
        let (s, d) = (ip.src(), ip.dst());
        match ip.proto() {
            PROTO_IGMP => FrameInfo { class: "igmp".into(), excluded: true },
            PROTO_ICMPV6 => {
                let Ok(m) = decode_icmp6(ip.payload(), &s, &d) else { return fi("undecodable-icmpv6") };
                match m.ty {
                    130 | 131 | 132 | 143 => FrameInfo { class: "mld".into(), excluded: true },
                    ND_RS => {
                        self.rs_seen += 1;
                        self.last_rs_at = self.now;
                        self.reached.insert(format!("sent:ndisc-rs#{}", self.rs_seen.min(4)));
                        if self.router_answers && !self.lost(src) {
                            let f = self.ra_frame(self.ra_lifetime, self.ra_prefix);
                            self.pending.push_back(Pend {
                                frame: f,
                                what: format!("router advertisement lifetime={} prefix={:?}", self.ra_lifetime, self.ra_prefix),
                                note: PendNote::None,
                            });
                        }
                        fi("slaac:ndisc-rs")
                    }
                    ND_NS => {
                        self.nd_until = self.nd_until.max(self.now + SEC);
                        self.reached.insert("sent:ndisc-ns".into());
                        if m.body.len() >= 16 {
                            let mut target = [0u8; 16];
                            target.copy_from_slice(&m.body[..16]);
                            let host = self.hosts.iter().find(|h| (h.ula == target || h.ll == target) && h.answers).cloned();
                            if let Some(h) = host {
                                if !self.lost(src) && !s.is_unspecified() {
                                    let na = nd_na(&target, 0x60, Some(&h.mac));
                                    let hs = Ip::V6(target);
                                    let pkt = IpPkt::build(hs, s, PROTO_ICMPV6, 255, na.encode6(&hs, &s));
                                    let fr = self.wrap(pkt, h.mac, NODE_MAC);
                                    self.pending.push_back(Pend { frame: fr, what: format!("neighbour advertisement for {}", hs), note: PendNote::None });
                                }
                            }
                        }
                        let owner = if m.body.len() >= 16 {
                            let mut target = [0u8; 16];
                            target.copy_from_slice(&m.body[..16]);
                            self.nd_owner(&Ip::V6(target))
                        } else {
                            "datagram"
                        };
                        fi(format!("{}:ndisc-ns", owner))
                    }
                    ND_NA => fi("interface:ndisc-na"),
                    128 => {
                        self.echo_reply(&ip, &m, src);
                        fi("icmp:echo-request")
                    }
                    129 => fi("interface:echo-reply"),
                    t => fi(format!("interface:icmpv6-type{}", t)),
                }
            }
            PROTO_ICMP => {
                let Ok(m) = decode_icmp4(ip.payload()) else { return fi("undecodable-icmpv4") };
                match m.ty {
                    8 => {
                        self.echo_reply(&ip, &m, src);
                        fi("icmp:echo-request")
                    }
                    0 => fi("interface:echo-reply"),
                    t => fi(format!("interface:icmpv4-type{}", t)),
                }
            }
            PROTO_TCP => {
                let Ok(dec) = decode_tcp(ip.payload(), &s, &d) else { return fi("undecodable-tcp") };
                self.on_tcp(&s, &d, &dec.seg, src)
            }
            PROTO_UDP => {
                let Ok(u) = decode_udp(ip.payload(), &s, &d) else { return fi("undecodable-udp") };
                match u.dport {
                    67 => self.on_dhcp(&u, src),
                    53 | 5353 => self.on_dns(&s, &d, &u, src),
                    _ => {
                        self.reached.insert("sent:udp".into());
                        fi("udp:datagram")
                    }
                }
            }
            p => fi(format!("raw:ip-proto{}", p)),
        }
    }

    fn echo_reply(&mut self, ip: &IpPkt, m: &Icmp, src: &mut Src) {
        let d = ip.dst();
        let host = self.hosts.iter().find(|h| (Ip::V4(h.v4) == d || Ip::V6(h.ula) == d || Ip::V6(h.ll) == d) && h.answers).cloned();
        let Some(h) = host else { return };
        if self.lost(src) {
            return;
        }
        let mut r = m.clone();
        let s = ip.src();
        let bytes = match d {
            Ip::V4(_) => {
                r.ty = 0;
                r.encode4()
            }
            Ip::V6(_) => {
                r.ty = 129;
                r.encode6(&d, &s)
            }
        };
        let pkt = IpPkt::build(d, s, if d.is_v4() { PROTO_ICMP } else { PROTO_ICMPV6 }, 64, bytes);
        let fr = self.wrap(pkt, h.mac, NODE_MAC);
        self.pending.push_back(Pend { frame: fr, what: "echo reply".into(), note: PendNote::None });
    }

    fn on_tcp(&mut self, s: &Ip, d: &Ip, seg: &Tcp, src: &mut Src) -> FrameInfo {
        let Some(idx) = self.tcps.iter().position(|t| t.lport == seg.sport && t.rport == seg.dport && t.raddr == *d) else {
            return fi("tcp:other");
        };
        // the socket may have picked another local address than planned (e.g. SLAAC / DHCP address)
        self.tcps[idx].laddr = *s;
        let t = &self.tcps[idx];
        let len = seg.payload.len() as u32;
        let end = seg.seq.wrapping_add(seg.seg_len());
        let kind: &str = if seg.has(RST) {
            "rst"
        } else if seg.has(SYN) {
            let again = t.iss == Some(seg.seq);
            match (seg.has(ACK), again) {
                (false, false) => "syn",
                (false, true) => "syn-retransmit",
                (true, false) => "synack",
                (true, true) => "synack-retransmit",
            }
        } else if t.iss.is_none() {
            "segment-before-syn"
        } else if len > 0 {
            if len == 1 && seg.payload[0] == 0 && end == t.snd_max && !seg.has(FIN) {
                "keepalive"
            } else if seq_le(end, t.snd_max) {
                "retransmit"
            } else if len == 1 && t.win_delivered == Some(0) {
                "zwp"
            } else {
                "data"
            }
        } else if seg.has(FIN) {
            if seq_le(end, t.snd_max) {
                "fin-retransmit"
            } else {
                "fin"
            }
        } else {
            "ack"
        };
        self.reached.insert(format!("sent:tcp:{}", kind));
        let t = &mut self.tcps[idx];
        if seg.has(RST) {
            t.iss = None;
            t.acked = None;
            t.sock_ack = None;
            t.fin_sent = false;
            t.syn_sent = false;
            return fi("tcp:rst");
        }
        if seg.has(ACK) {
            t.sock_ack = Some(seg.ack);
        }
        if seg.has(SYN) {
            if t.iss != Some(seg.seq) {
                t.iss = Some(seg.seq);
                t.snd_max = seg.seq.wrapping_add(1);
                t.acked = None;
            }
            let accept = t.accept;
            if !seg.has(ACK) {
                if accept && !self.lost(src) {
                    self.queue_tcp(idx, SYN, vec![], true, None, "accepts");
                }
            } else if !self.lost(src) {
                self.queue_tcp(idx, 0, vec![], true, None, "completes handshake");
            }
            return fi(format!("tcp:{}", kind));
        }
        let t = &mut self.tcps[idx];
        if t.iss.is_some() && seq_lt(t.snd_max, end) {
            t.snd_max = end;
        }
        let (have, auto_ack) = (t.iss.is_some(), t.auto_ack);
        if seg.seg_len() > 0 && have {
            let go = match auto_ack {
                2 => true,
                1 => src.bool(),
                _ => false,
            };
            if go && !self.lost(src) {
                self.queue_tcp(idx, 0, vec![], true, None, "acks");
            }
            let t = &mut self.tcps[idx];
            if seg.has(FIN) && t.auto_fin && !t.fin_sent && go {
                t.fin_sent = true;
                self.queue_tcp(idx, FIN, vec![], true, None, "closes too");
            }
        }
        fi(format!("tcp:{}", kind))
    }

    fn on_dhcp(&mut self, u: &Udp, src: &mut Src) -> FrameInfo {
        let p = &u.payload;
        if p.len() < 240 {
            return fi("dhcp:short");
        }
        let xid = u32::from_be_bytes([p[4], p[5], p[6], p[7]]);
        let mut mtype = 0u8;
        let mut at = 240;
        while at + 1 < p.len() {
            let c = p[at];
            if c == 255 {
                break;
            }
            if c == 0 {
                at += 1;
                continue;
            }
            let l = p[at + 1] as usize;
            if at + 2 + l > p.len() {
                break;
            }
            if c == 53 && l == 1 {
                mtype = p[at + 2];
            }
            at += 2 + l;
        }
        let class = match mtype {
            1 => "dhcp:discover",
            3 => "dhcp:request",
            _ => "dhcp:other",
        };
        self.reached.insert(format!("sent:{}", class));
        if !self.dhcp_answers || self.lost(src) || (mtype != 1 && mtype != 3) {
            return fi(class);
        }
        let srv = self.hosts[self.dhcp_server].clone();
        let reply_type = if mtype == 1 {
            DhcpMessageType::Offer
        } else if self.dhcp_nak && src.chance(1, 3) {
            DhcpMessageType::Nak
        } else {
            DhcpMessageType::Ack
        };
        // (DhcpRepr::emit does not write T1/T2 from its renew/rebind fields: they travel as additional options)
        let t1b = self.dhcp_t1t2.map(|t| t.0.to_be_bytes());
        let t2b = self.dhcp_t1t2.map(|t| t.1.to_be_bytes());
        let mut extra: Vec<smoltcp::wire::DhcpOption> = vec![];
        if let (Some(a), Some(b)) = (&t1b, &t2b) {
            extra.push(smoltcp::wire::DhcpOption { kind: 58, data: &a[..] });
            extra.push(smoltcp::wire::DhcpOption { kind: 59, data: &b[..] });
        }
        let repr = DhcpRepr {
            message_type: reply_type,
            transaction_id: xid,
            secs: 0,
            client_hardware_address: EthernetAddress(NODE_MAC),
            client_ip: Ipv4Address::UNSPECIFIED,
            your_ip: smol4(LEASE_V4),
            server_ip: smol4(srv.v4),
            router: Some(smol4(self.hosts[2].v4)),
            subnet_mask: Some(Ipv4Address::new(255, 255, 255, 0)),
            relay_agent_ip: Ipv4Address::UNSPECIFIED,
            broadcast: false,
            requested_ip: None,
            client_identifier: None,
            server_identifier: Some(smol4(srv.v4)),
            parameter_request_list: None,
            dns_servers: None,
            max_size: None,
            lease_duration: Some(self.dhcp_lease),
            renew_duration: self.dhcp_t1t2.map(|t| t.0),
            rebind_duration: self.dhcp_t1t2.map(|t| t.1),
            additional_options: &extra,
        };
        let mut buf = vec![0u8; repr.buffer_len()];
        {
            let mut pk = DhcpPacket::new_unchecked(&mut buf[..]);
            if repr.emit(&mut pk).is_err() {
                return fi(class);
            }
        }
        let (s, d) = (Ip::V4(srv.v4), Ip::V4([255, 255, 255, 255]));
        let l4 = Udp::new(67, 68, buf).encode(&s, &d);
        let ip = IpPkt::build(s, d, PROTO_UDP, 64, l4);
        let fr = self.wrap(ip, srv.mac, MAC_BROADCAST);
        self.pending.push_back(Pend { frame: fr, what: format!("DHCP {:?} xid={:#x} lease={}s", reply_type, xid, self.dhcp_lease), note: PendNote::None });
        fi(class)
    }

    fn on_dns(&mut self, s: &Ip, d: &Ip, u: &Udp, src: &mut Src) -> FrameInfo {
        let p = &u.payload;
        if p.len() < 17 {
            return fi("dns:short");
        }
        let txid = u16::from_be_bytes([p[0], p[1]]);
        let class = match self.dns_last_dst.get(&txid) {
            Some(prev) if prev != d => "dns:query-to-next-server",
            Some(_) => "dns:query-retransmit",
            None => "dns:query",
        };
        self.dns_last_dst.insert(txid, *d);
        self.reached.insert(format!("sent:{}", class));
        let answers = self.dns_servers.iter().any(|x| x.0 == *d && x.1);
        if !answers || self.lost(src) {
            return fi(class);
        }
        // question: labels up to the root, then type and class
        let mut at = 12;
        while at < p.len() && p[at] != 0 {
            at += 1 + p[at] as usize;
        }
        if at + 5 > p.len() {
            return fi(class);
        }
        let qend = at + 5;
        let qtype = u16::from_be_bytes([p[at + 1], p[at + 2]]);
        let mut r = vec![p[0], p[1], 0x81, 0x80, 0, 1, 0, 1, 0, 0, 0, 0];
        r.extend_from_slice(&p[12..qend]);
        r.extend_from_slice(&[0xc0, 0x0c]);
        r.extend_from_slice(&qtype.to_be_bytes());
        r.extend_from_slice(&[0, 1, 0, 0, 0, 60]);
        if qtype == 28 {
            r.extend_from_slice(&[0, 16]);
            r.extend_from_slice(&v6([0x2001, 0xdb8, 0, 0, 0, 0, 0, 0x77]));
        } else {
            r.extend_from_slice(&[0, 4, 192, 0, 2, 77]);
        }
        let l4 = Udp::new(u.dport, u.sport, r).encode(d, s);
        let ip = IpPkt::build(*d, *s, PROTO_UDP, 64, l4);
        let mac = self.mac_toward(d);
        let fr = self.wrap(ip, mac, NODE_MAC);
        self.pending.push_back(Pend { frame: fr, what: format!("DNS answer from {} txid={:#x}", d, txid), note: PendNote::None });
        fi(class)
    }
}
