//! C20: TCP over 6LoWPAN - connect/listen, PRF streams both ways, close.

use super::dgram::*;
use super::lowpan::*;
use super::world::*;
use smoltcp::iface::SocketHandle;
use smoltcp::socket::{raw, tcp};
use smoltcp::wire::{IpEndpoint, IpListenEndpoint, IpProtocol, IpVersion};
use vkit::indep::*;
use vkit::runner::Fail;
use vkit::sim::tcpbed::prf_bytes;
use vkit::{Ctx, Src};

struct TcpApp {
    h: [SocketHandle; 2],
    /// raw TCP sockets: the receiver's view of whole decompressed datagrams
    raw: [SocketHandle; 2],
    raw_checked: u64,
    seeds: [u64; 2],
    /// octets side i wants to send
    len: [usize; 2],
    written: [usize; 2],
    recvd: [usize; 2],
    closed: [bool; 2],
    hop: u8,
    addrs: [[u8; 16]; 2],
    checked: [usize; 2],
    segments: u64,
    fragmented_segments: u64,
    max_frags: usize,
}

impl App for TcpApp {
    fn before_round(&mut self, w: &mut World, _ctx: &mut Ctx) -> Result<(), Fail> {
        for i in 0..2 {
            let s = w.s[i].node.sockets.get_mut::<tcp::Socket>(self.h[i]);
            while self.written[i] < self.len[i] && s.can_send() {
                let n = (self.len[i] - self.written[i]).min(1500);
                let chunk = prf_bytes(self.seeds[i], self.written[i] as u64, n);
                match s.send_slice(&chunk) {
                    Ok(0) | Err(_) => break,
                    Ok(k) => self.written[i] += k,
                }
            }
            if self.written[i] == self.len[i] && !self.closed[i] && s.may_send() {
                s.close();
                self.closed[i] = true;
            }
        }
        Ok(())
    }

    fn after_poll(&mut self, w: &mut World, side: usize, ctx: &mut Ctx) -> Result<(), Fail> {
        // application reads
        let from = 1 - side;
        let s = w.s[side].node.sockets.get_mut::<tcp::Socket>(self.h[side]);
        let mut buf = vec![0u8; 4096];
        while let Ok(n) = s.recv_slice(&mut buf) {
            if n == 0 {
                break;
            }
            let at = self.recvd[side];
            if at + n > self.len[from] {
                return Err(Fail::new("tcp:delivered-beyond-stream", format!("node {} read {} octets at offset {} but the peer writes only {}", side, n, at, self.len[from])));
            }
            let exp = prf_bytes(self.seeds[from], at as u64, n);
            if exp != buf[..n] {
                let p = exp.iter().zip(buf.iter()).position(|(a, b)| a != b).unwrap();
                return Err(Fail::new("tcp:stream-corrupted", format!("node {} read {:#04x} at stream offset {} where the peer wrote {:#04x}", side, buf[p], at + p, exp[p])));
            }
            self.recvd[side] += n;
            ctx.count("tcp_octets_delivered", n as u64);
        }
        // what the receiver's raw socket is given is, header included, a datagram the other node transmitted
        if w.lowpan {
            let mut got = vec![];
            {
                let r = w.s[side].node.sockets.get_mut::<raw::Socket>(self.raw[side]);
                while let Ok(d) = r.recv() {
                    got.push(d.to_vec());
                }
            }
            for g in got {
                if w.tainted {
                    continue;
                }
                if !w.s[from].an.dgrams.iter().any(|d| d.complete && d.bytes == g) {
                    let near = w.s[from].an.dgrams.iter().filter(|d| d.complete && d.bytes.len() == g.len()).map(|d| first_diff(&g, &d.bytes)).last().unwrap_or("no datagram of that length was sent".into());
                    return Err(Fail::new(
                        "ingress:decompressed-datagram-differs-from-what-was-sent",
                        format!("node {}: a raw socket received an IPv6 datagram of {} octets (next header {}, hop limit {}) that equals no datagram node {} transmitted; {}", side, g.len(), g.get(6).copied().unwrap_or(0), g.get(7).copied().unwrap_or(0), from, near),
                    ));
                }
                self.raw_checked += 1;
            }
        }
        // every reconstructed datagram is a valid TCP segment between the two addresses with the configured hop limit
        if w.lowpan {
            for sd in 0..2 {
                let n = w.s[sd].an.dgrams.len();
                for id in self.checked[sd]..n {
                    let d = &mut w.s[sd].an.dgrams[id];
                    if !d.complete {
                        continue;
                    }
                    if d.matched {
                        continue;
                    }
                    d.matched = true;
                    let Some(pkt) = &d.pkt else { continue };
                    if pkt.proto == PROTO_TCP {
                        self.segments += 1;
                        if let Ok(t) = decode_tcp(&pkt.payload, &Ip::V6(pkt.src), &Ip::V6(pkt.dst)) {
                            let nf = d.nfrags;
                            ctx.note(|| format!("      [{}] d{} ({} frame(s)): {}", sd, id, nf, t.seg));
                        }
                        if d.nfrags > 1 {
                            self.fragmented_segments += 1;
                        }
                        self.max_frags = self.max_frags.max(d.nfrags);
                        if pkt.src != self.addrs[sd] || pkt.dst != self.addrs[1 - sd] {
                            return Err(Fail::new("egress:tcp-segment-addresses-differ", format!("node {}: reconstructed segment {} -> {}, connection is {} -> {}", sd, a2s(&pkt.src), a2s(&pkt.dst), a2s(&self.addrs[sd]), a2s(&self.addrs[1 - sd]))));
                        }
                        // immediate ACK/RST replies are built with hop limit 64 whatever the socket says
                        // (tcp::Socket::reply); that is a socket matter, not a 6LoWPAN one
                        if pkt.hop != self.hop && pkt.hop != 64 {
                            return Err(Fail::new("egress:hop-limit-differs", format!("node {}: reconstructed TCP segment has hop limit {}, socket configured {}", sd, pkt.hop, self.hop)));
                        }
                        if pkt.tc != 0 || pkt.flow != 0 {
                            return Err(Fail::new("egress:traffic-class-or-flow-label-nonzero", format!("tc {} flow {}", pkt.tc, pkt.flow)));
                        }
                    }
                }
                while self.checked[sd] < n && w.s[sd].an.dgrams[self.checked[sd]].matched {
                    self.checked[sd] += 1;
                }
                w.s[sd].completed.clear();
            }
        }
        Ok(())
    }

    fn done(&mut self, w: &mut World) -> bool {
        let mut ok = self.recvd[0] == self.len[1] && self.recvd[1] == self.len[0];
        for i in 0..2 {
            let st = w.s[i].node.sockets.get_mut::<tcp::Socket>(self.h[i]).state();
            ok &= matches!(st, tcp::State::Closed | tcp::State::TimeWait);
        }
        ok
    }
}

#[allow(clippy::too_many_arguments)]
fn run(cfg: &Cfg, lowpan: bool, mtu: usize, ai: usize, bi: usize, ports: (u16, u16), lens: [usize; 2], seeds: [u64; 2], hop: u8, bufs: usize, faults: Faults, src: &mut Src, ctx: &mut Ctx) -> Result<(TcpApp, World, bool), Fail> {
    let mut w = World::new(cfg, lowpan, mtu);
    let mut h = vec![];
    for i in 0..2 {
        let mut s = tcp::Socket::new(tcp::SocketBuffer::new(vec![0u8; bufs]), tcp::SocketBuffer::new(vec![0u8; bufs]));
        s.set_hop_limit(Some(hop));
        h.push(w.s[i].node.sockets.add(s));
    }
    let mut rawh = vec![];
    for i in 0..2 {
        let rx = raw::PacketBuffer::new(vec![raw::PacketMetadata::EMPTY; 64], vec![0u8; 65_536]);
        let tx = raw::PacketBuffer::new(vec![raw::PacketMetadata::EMPTY; 1], vec![0u8; 64]);
        rawh.push(w.s[i].node.sockets.add(raw::Socket::new(Some(IpVersion::Ipv6), Some(IpProtocol::Tcp), rx, tx)));
    }
    let (la, ra) = (cfg.n[0].addrs[ai], cfg.n[1].addrs[bi]);
    w.s[1].node.sockets.get_mut::<tcp::Socket>(h[1]).listen(IpListenEndpoint { addr: None, port: ports.1 }).expect("listen");
    {
        let n = &mut w.s[0].node;
        let cx = n.iface.context();
        n.sockets.get_mut::<tcp::Socket>(h[0]).connect(cx, IpEndpoint::new(ipa(&ra), ports.1), IpEndpoint::new(ipa(&la), ports.0)).expect("connect");
    }
    let mut app = TcpApp { h: [h[0], h[1]], raw: [rawh[0], rawh[1]], raw_checked: 0, seeds, len: lens, written: [0; 2], recvd: [0; 2], closed: [false; 2], hop, addrs: [la, ra], checked: [0; 2], segments: 0, fragmented_segments: 0, max_frags: 0 };
    let done = w.pump(&mut app, src, faults, ctx, 6000, 400_000)?;
    Ok((app, w, done))
}

pub fn tcp_case(src: &mut Src, ctx: &mut Ctx) -> Result<(), Fail> {
    let mut cl = draw_classes(src);
    cl.hw = [0, 0]; // unicast both ways needs extended addresses (neighbour discovery)
    cl.mtu = *src.pick(&[125usize, 127, 125, 160, 200, 576, 1280, 1500]);
    let cfg = make_cfg(&cl);
    ctx.note(|| describe_cfg(&cfg));
    let ai = src.draw(1) as usize;
    let bi = src.draw(1) as usize;
    let ports = (draw_port(src).max(1), draw_port(src).max(1));
    let lens = [
        match src.weighted(&[3, 1, 1]) {
            0 => src.usize(0, 3000),
            1 => src.usize(3000, 6144),
            _ => 0,
        },
        match src.weighted(&[2, 2, 1]) {
            0 => src.usize(0, 3000),
            1 => 0,
            _ => src.usize(3000, 6144),
        },
    ];
    let seeds = [src.u64(), src.u64()];
    let hop = draw_hop(src);
    let bufs = *src.pick(&[4096usize, 1024, 8192, 300]);
    let faulty = src.chance(1, 2);
    let faults = if faulty { Faults { reorder: src.bool(), dup: src.bool(), gaps: false, backpressure: src.bool() } } else { Faults::NONE };
    ctx.note(|| format!("tcp {}:{} -> {}:{} stream A->B {} octets, B->A {} octets, hop {}, buffers {}, mtu {}, faults {:?}", a2s(&cfg.n[0].addrs[ai]), ports.0, a2s(&cfg.n[1].addrs[bi]), ports.1, lens[0], lens[1], hop, bufs, cfg.mtu, faults));
    ctx.label(&format!("tcp:mtu-{}", cfg.mtu));
    ctx.label(&format!("tcp:src:{}", addr_class(&cfg.n[0].addrs[ai], cfg.n[0].ll)));
    ctx.label(&format!("tcp:dst:{}", addr_class(&cfg.n[1].addrs[bi], cfg.n[1].ll)));
    ctx.label(hop_class(hop));

    let (tapp, _tw, tdone) = run(&cfg, false, cfg.mtu, ai, bi, ports, lens, seeds, hop, bufs, Faults::NONE, src, ctx)?;
    if !tdone {
        ctx.label("tcp:twin-incomplete");
    }
    let (app, w, done) = run(&cfg, true, cfg.mtu, ai, bi, ports, lens, seeds, hop, bufs, faults, src, ctx)?;
    ctx.note(|| format!("6lowpan: done={} A read {} of {}, B read {} of {}; twin: done={} A read {}, B read {}; t={} ms", done, app.recvd[0], lens[1], app.recvd[1], lens[0], tdone, tapp.recvd[0], tapp.recvd[1], w.now_ms));
    ctx.label(frag_bucket(app.max_frags));
    if app.fragmented_segments > 0 {
        ctx.label("tcp:segments-fragmented");
    }
    ctx.count("tcp_segments", app.segments);
    ctx.count("raw_socket_datagrams_compared", app.raw_checked);
    if done {
        ctx.label("tcp:completed");
        ctx.nontrivial = app.recvd[0] + app.recvd[1] > 0;
        ctx.digest.str("tcp");
        ctx.digest.str(addr_class(&cfg.n[0].addrs[ai], cfg.n[0].ll));
        ctx.digest.str(addr_class(&cfg.n[1].addrs[bi], cfg.n[1].ll));
        ctx.digest.str(hop_class(hop));
        ctx.digest.u64(cfg.mtu as u64);
        ctx.digest.u64(lens[0] as u64);
        ctx.digest.u64(lens[1] as u64);
        ctx.digest.u64(ports.0 as u64);
    } else {
        ctx.label("tcp:not-completed");
        if tdone && !w.tainted && !faults.any() && !faults.backpressure {
            return Err(Fail::new(
                "tcp:stream-not-completed-over-faultless-6lowpan-link",
                format!("after {} ms of virtual time A has read {} of {} octets and B {} of {} although no frame was lost, reordered or duplicated; the same exchange over Medium::Ip completed", w.now_ms, app.recvd[0], lens[1], app.recvd[1], lens[0]),
            ));
        }
        ctx.inconclusive = true;
    }
    if (0..2).any(|i| matches!(cfg.n[i].ll, Ll::Short(_))) {
        unreachable!();
    }
    Ok(())
}
