//! C03 helper: the interface under test with its socket zoo, the guarded and
//! watched poll, and the independent judgement of injected frames.

use super::env::*;
use super::gram::tcp_raw;
use super::lowpan::*;
use super::refl::{observe, Emitted, Seen};
use smoltcp::iface::SocketHandle;
use smoltcp::socket::{dhcpv4, dns, icmp, raw, tcp, udp};
use smoltcp::time::Duration;
use smoltcp::wire::{DnsQueryType, IpAddress, IpCidr, IpEndpoint, IpListenEndpoint, IpProtocol, IpVersion, SixlowpanAddressContext};
use std::collections::VecDeque;
use vkit::indep::*;
use vkit::runner::{guarded, panic_in_smoltcp, panic_key, Fail};
use vkit::sim::{ms, Hw, Node};
use vkit::{Ctx, Src};

/// CPU time one Interface::poll may consume before it counts as not returning (a legitimate
/// poll handles at most 50 000 frames and needs well under 0.5 s)
pub const HANG_CPU_MS: u64 = 10_000;
pub const HARD_CAP: usize = 50_000;

// ------------------------------------------------------------------ watchdog
//
// vkit::hang: the verdict is the CPU time one poll consumes without returning, never the
// wall-clock time (see the module header there).

fn arm(src: &Src, part: &'static str) {
    vkit::hang::arm(src, "C03", part, "Interface::poll", "hang:Interface::poll", HANG_CPU_MS);
}
fn disarm() -> u64 {
    vkit::hang::disarm()
}

// ------------------------------------------------------------------ world

#[derive(Clone, Copy, PartialEq, Eq, Debug)]
pub enum TcpRole {
    ListenSmall,
    ListenBig,
    Connect,
    Established,
}

pub struct Socks {
    /// (handle, role, local port, receive buffer > 64 KiB)
    pub tcp: Vec<(SocketHandle, TcpRole, u16, bool)>,
    /// (handle, port, bound to an IPv6 address)
    pub udp: Vec<(SocketHandle, u16, bool)>,
    pub icmp: Vec<SocketHandle>,
    pub icmp_ident: Option<SocketHandle>,
    pub raw: Vec<SocketHandle>,
    pub dns: Option<(SocketHandle, Vec<dns::QueryHandle>)>,
    pub dhcp: Option<SocketHandle>,
}

pub struct World {
    pub node: Node,
    pub env: Env,
    pub socks: Socks,
    pub now: i64,
    pub recent: VecDeque<Emitted>,
    /// recently injected frames (for splicing)
    pub injected: VecDeque<Vec<u8>>,
    pub part: &'static str,
    pub responses: u64,
    pub dhcp_configured: bool,
}

pub fn pbuf<H: Clone>(n: usize, bytes: usize, empty: smoltcp::storage::PacketMetadata<H>) -> smoltcp::storage::PacketBuffer<'static, H> {
    smoltcp::storage::PacketBuffer::new(vec![empty; n], vec![0u8; bytes])
}

fn cidr6(a: [u8; 16], len: u8) -> IpCidr {
    IpCidr::new(Ip::V6(a).to_smol(), len)
}

pub fn ll_bytes(l: &Ll) -> Vec<u8> {
    match l {
        Ll::Ext(e) => e.to_vec(),
        Ll::Short(s) => s.to_vec(),
        Ll::None => vec![],
    }
}

impl World {
    pub fn build(src: &mut Src, ctx: &mut Ctx, med: Med, part: &'static str) -> World {
        // ---- own addressing
        let mac = [0x02, 0, 0, 0, 0, 0x01];
        let short = med == Med::Lowpan && src.chance(1, 5);
        let ll = if short { Ll::Short([0x12, 0x34]) } else { Ll::Ext([0x02, 0x11, 0x22, 0x33, 0x44, 0x55, 0x66, 0x01]) };
        let pan = if med == Med::Lowpan && src.chance(3, 4) { Some(0xabcd) } else { None };
        let iid: [u8; 8] = match med {
            Med::Eth => eui64(&mac),
            Med::Ip => [0, 0, 0, 0, 0, 0, 0, 1],
            Med::Lowpan => ll.iid().unwrap(),
        };
        let derived_global = src.bool();
        let g6 = v6addr(G_PREFIX, if derived_global { iid } else { [0, 0, 0, 0, 0, 0, 1, 1] });
        let ll6 = v6addr(LL_PREFIX, iid);
        let v4 = if med == Med::Lowpan { None } else { Some([192, 168, 69, 1]) };
        let mtu = match med {
            Med::Eth => *src.pick(&[1514usize, 1514, 600, 300]),
            Med::Ip => *src.pick(&[1500usize, 1500, 576, 1280]),
            Med::Lowpan => *src.pick(&[1280usize, 1280, 300]),
        };
        let slaac = med != Med::Ip && src.chance(1, 2);
        let hw = match med {
            Med::Eth => Hw::Eth(mac),
            Med::Ip => Hw::Ip,
            Med::Lowpan => match ll {
                Ll::Short(s) => Hw::IeeeShort(s, pan),
                Ll::Ext(e) => Hw::Ieee(e, pan),
                Ll::None => unreachable!(),
            },
        };
        let seed = src.u64();
        let mut node = Node::new(hw, mtu, seed, slaac, ms(0));
        node.dev.hard_cap = HARD_CAP;
        if let Some(a) = v4 {
            node.add_addr(IpCidr::new(Ip::V4(a).to_smol(), 24));
        }
        node.add_addr(cidr6(ll6, 64));
        node.add_addr(cidr6(g6, 64));
        ctx.label(&format!("cfg:slaac-{}", slaac));
        ctx.label(&format!("cfg:global-iid-{}", if derived_global { "from-hw-addr" } else { "static" }));
        ctx.label(&format!("cfg:mtu-{}", mtu));
        if med == Med::Lowpan {
            ctx.label(if short { "cfg:hw-short" } else { "cfg:hw-extended" });
            ctx.label(if pan.is_some() { "cfg:pan-set" } else { "cfg:pan-none" });
        }
        // ---- peers
        let mk = |k: u8, onlink: bool| -> Peer {
            let pmac = [0x02, 0, 0, 0, 0, k];
            let pll = Ll::Ext([0x02, 0x11, 0x22, 0x33, 0x44, 0x55, 0x66, k]);
            let piid = if med == Med::Lowpan { pll.iid().unwrap() } else { eui64(&pmac) };
            if onlink {
                Peer { mac: pmac, ll: pll, v4: [192, 168, 69, k], ll6: v6addr(LL_PREFIX, piid), g6: v6addr(G_PREFIX, piid), onlink }
            } else {
                Peer { mac: pmac, ll: pll, v4: [10, 1, 2, 3], ll6: v6addr(FAR_PREFIX, piid), g6: v6addr(FAR_PREFIX, piid), onlink }
            }
        };
        let mut peers = vec![mk(2, true), mk(3, true), mk(254, true), mk(254, false)];
        peers[3].mac = peers[2].mac;
        peers[3].ll = peers[2].ll;
        // ---- routes
        if src.chance(2, 3) {
            if v4.is_some() {
                let _ = node.iface.routes_mut().add_default_ipv4_route(smoltcp::wire::Ipv4Address::from(peers[2].v4));
            }
            let gw = if src.bool() { peers[2].ll6 } else { peers[2].g6 };
            let _ = node.iface.routes_mut().add_default_ipv6_route(smoltcp::wire::Ipv6Address::from(gw));
            ctx.label("cfg:default-routes");
        }
        // ---- groups (never on 802.15.4: API misuse there)
        let mut group4 = None;
        let mut group6 = None;
        if med != Med::Lowpan {
            if src.bool() {
                group4 = Some([224, 1, 2, 3]);
                node.iface.join_multicast_group(Ip::V4([224, 1, 2, 3]).to_smol()).expect("join");
            }
            if src.bool() {
                let g = [0xff, 0x02, 0, 0, 0, 0, 0, 0, 0, 0, 0, 0, 0, 1, 0, 3];
                group6 = Some(g);
                node.iface.join_multicast_group(Ip::V6(g).to_smol()).expect("join");
            }
        }
        // ---- 6LoWPAN contexts
        let mut ctxs = Ctxs::default();
        if med == Med::Lowpan {
            let n = src.weighted(&[2, 2, 1]);
            let prefixes = [G_PREFIX, FAR_PREFIX];
            for (i, p) in prefixes.iter().enumerate().take(n) {
                ctxs.0[i] = Some(*p);
                node.iface.sixlowpan_address_context_mut().push(SixlowpanAddressContext(*p)).expect("context table");
            }
        }
        let env = Env {
            own: Own { med, mac, ll, pan, v4, ll6, g6, group4, group6, mtu, slaac },
            peers,
            udp_ports: vec![],
            tcp_ports: vec![],
            icmp_ident: ICMP_IDENT,
            conns: vec![],
            dns: None,
            dhcp: None,
            ctxs,
            seq154: 0,
            ipid: 0x4000,
        };
        let socks = Socks { tcp: vec![], udp: vec![], icmp: vec![], icmp_ident: None, raw: vec![], dns: None, dhcp: None };
        let mut w = World { node, env, socks, now: 0, recent: VecDeque::new(), injected: VecDeque::new(), part, responses: 0, dhcp_configured: false };
        w.make_sockets(src, ctx);
        w
    }

    fn tcp_socket(&mut self, src: &mut Src, rx: usize, tx: usize) -> tcp::Socket<'static> {
        let mut s = tcp::Socket::new(tcp::SocketBuffer::new(vec![0u8; rx]), tcp::SocketBuffer::new(vec![0u8; tx]));
        if src.chance(1, 3) {
            s.set_keep_alive(Some(Duration::from_millis(*src.pick(&[1000u64, 100, 75_000]))));
        }
        if src.chance(1, 3) {
            s.set_timeout(Some(Duration::from_millis(*src.pick(&[5000u64, 500, 120_000]))));
        }
        if src.chance(1, 3) {
            s.set_ack_delay(if src.bool() { None } else { Some(Duration::from_millis(50)) });
        }
        if src.chance(1, 3) {
            s.set_nagle_enabled(false);
        }
        match src.weighted(&[2, 1, 1]) {
            0 => {}
            1 => s.set_congestion_control(tcp::CongestionControl::Reno),
            _ => s.set_congestion_control(tcp::CongestionControl::Cubic),
        }
        if src.chance(1, 4) {
            s.set_tsval_generator(Some(|| 0x0102_0304));
        }
        s
    }

    fn make_sockets(&mut self, src: &mut Src, ctx: &mut Ctx) {
        let med = self.env.own.med;
        // TCP listening, small and > 64 KiB receive buffers
        if src.chance(3, 4) {
            let rx = *src.pick(&[256usize, 64, 1024, 2048]);
            let mut s = self.tcp_socket(src, rx, 1024);
            s.listen(TCP_PORT_SMALL).expect("listen");
            let h = self.node.sockets.add(s);
            self.socks.tcp.push((h, TcpRole::ListenSmall, TCP_PORT_SMALL, false));
            self.env.tcp_ports.push(TCP_PORT_SMALL);
            ctx.label("sock:tcp-listen-small");
        }
        if src.chance(1, 2) {
            let rx = *src.pick(&[100_000usize, 65_536, 300_000, 70_000]);
            let mut s = self.tcp_socket(src, rx, 2048);
            let ep = if src.bool() { IpListenEndpoint::from(TCP_PORT_BIG) } else { IpListenEndpoint { addr: Some(Ip::V6(self.env.own.g6).to_smol()), port: TCP_PORT_BIG } };
            s.listen(ep).expect("listen");
            let h = self.node.sockets.add(s);
            self.socks.tcp.push((h, TcpRole::ListenBig, TCP_PORT_BIG, true));
            self.env.tcp_ports.push(TCP_PORT_BIG);
            ctx.label("sock:tcp-listen-big-window");
        }
        // TCP connecting (SYN goes out at the first poll)
        if src.chance(2, 3) {
            let v6 = med == Med::Lowpan || src.bool();
            let peer = src.weighted(&[4, 1, 0, 2]);
            let raddr = if v6 { Ip::V6(self.env.peers[peer].g6) } else { Ip::V4(self.env.peers[peer].v4) };
            let rx = *src.pick(&[512usize, 100_000, 64]);
            let mut s = self.tcp_socket(src, rx, 1024);
            let lport = 49152;
            s.connect(self.node.iface.context(), (raddr.to_smol(), PEER_TCP_PORT), lport).expect("connect");
            if src.bool() {
                let _ = s.send_slice(&[0x61; 200]);
            }
            let h = self.node.sockets.add(s);
            self.socks.tcp.push((h, TcpRole::Connect, lport, rx > 65535));
            ctx.label("sock:tcp-connecting");
        }
        // UDP bound
        if src.chance(3, 4) {
            for port in [UDP_PORT_A, UDP_PORT_B] {
                if port == UDP_PORT_B && src.bool() {
                    continue;
                }
                let mut s = udp::Socket::new(pbuf(4, 2048, udp::PacketMetadata::EMPTY), pbuf(2, 4096, udp::PacketMetadata::EMPTY));
                let v6_bound = port == UDP_PORT_A && src.chance(1, 4);
                if v6_bound {
                    s.bind(IpListenEndpoint { addr: Some(Ip::V6(self.env.own.g6).to_smol()), port }).expect("bind");
                } else {
                    s.bind(port).expect("bind");
                }
                let h = self.node.sockets.add(s);
                self.socks.udp.push((h, port, v6_bound));
                self.env.udp_ports.push(port);
            }
            ctx.label("sock:udp");
        }
        // ICMP: ident, udp-port and tcp-port forms
        let mk_icmp = |ep: icmp::Endpoint, node: &mut Node| -> SocketHandle {
            let mut s = icmp::Socket::new(pbuf(4, 1024, icmp::PacketMetadata::EMPTY), pbuf(2, 512, icmp::PacketMetadata::EMPTY));
            s.bind(ep).expect("bind");
            node.sockets.add(s)
        };
        if src.chance(2, 3) {
            let h = mk_icmp(icmp::Endpoint::Ident(ICMP_IDENT), &mut self.node);
            self.socks.icmp.push(h);
            self.socks.icmp_ident = Some(h);
            ctx.label("sock:icmp-ident");
        }
        if src.chance(1, 2) {
            let h = mk_icmp(icmp::Endpoint::Udp(IpListenEndpoint::from(UDP_PORT_A)), &mut self.node);
            self.socks.icmp.push(h);
            ctx.label("sock:icmp-udp-port");
        }
        if src.chance(1, 2) {
            let h = mk_icmp(icmp::Endpoint::Tcp(IpListenEndpoint::from(TCP_PORT_SMALL)), &mut self.node);
            self.socks.icmp.push(h);
            ctx.label("sock:icmp-tcp-port");
        }
        // raw sockets: receive side only
        if src.chance(1, 2) {
            let specs: [(IpVersion, u8); 4] = [(IpVersion::Ipv4, 253), (IpVersion::Ipv6, 254), (IpVersion::Ipv4, 17), (IpVersion::Ipv6, 17)];
            for (i, (ver, proto)) in specs.iter().enumerate() {
                if med == Med::Lowpan && *ver == IpVersion::Ipv4 {
                    continue;
                }
                if i >= 2 && src.chance(2, 3) {
                    continue;
                }
                let s = raw::Socket::new(Some(*ver), Some(IpProtocol::from(*proto)), pbuf(4, 2048, raw::PacketMetadata::EMPTY), pbuf(1, 64, raw::PacketMetadata::EMPTY));
                self.socks.raw.push(self.node.sockets.add(s));
                ctx.label(if *proto == 17 { "sock:raw-udp" } else { "sock:raw" });
            }
        }
        // DNS with a pending query
        if src.chance(2, 3) {
            let mut servers: Vec<IpAddress> = vec![];
            let v6 = med == Med::Lowpan || src.bool();
            let p0 = &self.env.peers[0];
            servers.push(if v6 { Ip::V6(p0.g6).to_smol() } else { Ip::V4(p0.v4).to_smol() });
            if src.bool() {
                let p3 = &self.env.peers[3];
                servers.push(if v6 { Ip::V6(p3.g6).to_smol() } else { Ip::V4(p3.v4).to_smol() });
            }
            let s = dns::Socket::new(&servers, vec![]);
            let h = self.node.sockets.add(s);
            let name = if med != Med::Lowpan && src.chance(1, 5) { "printer.local" } else { *src.pick(&["example.com", "a.b.c.d.example.org", "x"]) };
            let ty = *src.pick(&[DnsQueryType::A, DnsQueryType::Aaaa, DnsQueryType::Cname]);
            let ty = if med == Med::Lowpan && name.ends_with("local") { DnsQueryType::Aaaa } else { ty };
            let q = self.node.sockets.get_mut::<dns::Socket>(h).start_query(self.node.iface.context(), name, ty).expect("start_query");
            self.socks.dns = Some((h, vec![q]));
            ctx.label("sock:dns");
        }
        // DHCPv4 client (Ethernet only); its events are never applied to the interface
        if med == Med::Eth && src.chance(1, 2) {
            let mut s = dhcpv4::Socket::new();
            if src.chance(1, 3) {
                s.set_max_lease_duration(Some(Duration::from_secs(*src.pick(&[10u64, 3600]))));
            }
            if src.chance(1, 4) {
                s.set_ignore_naks(true);
            }
            self.socks.dhcp = Some(self.node.sockets.add(s));
            ctx.label("sock:dhcp");
        }
    }

    // ------------------------------------------------------------------ polling

    /// One guarded, watched `Interface::poll`. Ok(None): smoltcp panicked with a registered open
    /// finding - the case ends.
    pub fn poll(&mut self, src: &Src, ctx: &mut Ctx, budget: Option<usize>) -> Result<Option<Vec<Emitted>>, Fail> {
        arm(src, self.part);
        let now = ms(self.now);
        let node = &mut self.node;
        let r = guarded(|| node.poll(now, budget));
        let took = disarm();
        if took > 2_000 {
            // it returned: slowness by the wall clock says nothing about smoltcp
            ctx.label("slow-poll-wall-clock");
            ctx.inconclusive = true;
        }
        let frames = match r {
            Ok(f) => f,
            Err(p) => {
                if panic_in_smoltcp(&p) {
                    let f = Fail::new(stable_key(&panic_key(&p)), format!("Interface::poll panicked at {}:{}: {} (medium {}, virtual time {} ms)", p.file, p.line, p.msg, self.env.own.med.name(), self.now));
                    ctx.note(|| format!("  !! {}", f.msg));
                    report(ctx, f)?;
                    ctx.label("ended-by-known-panic");
                    return Ok(None);
                }
                panic!("harness-side panic inside poll at {}:{}: {}", p.file, p.line, p.msg);
            }
        };
        if self.node.dev.hard_cap_hit {
            self.node.dev.hard_cap_hit = false;
            // what the flood consists of names the root cause
            let kind = frames.last().map(|f| observe(&mut self.env, f).seen.name()).unwrap_or("nothing");
            report(
                ctx,
                Fail::new(
                    format!("poll:egress-does-not-terminate:{}", kind),
                    format!("one Interface::poll handled more than {} frames (the last one emitted: {}) although no socket has more than 2 KiB queued: the egress loop of Interface::poll does not terminate on its own (medium {}, virtual time {} ms)", HARD_CAP, kind, self.env.own.med.name(), self.now),
                ),
            )?;
            ctx.label("ended-by-known-egress-loop");
            return Ok(None);
        }
        let mut out = vec![];
        for f in frames {
            let e = observe(&mut self.env, &f);
            ctx.label(&format!("emit:{}", e.seen.name()));
            ctx.note(|| format!("    <- stack emits {} ({} octets)", e.seen.name(), f.len()));
            if let Seen::Dhcp(3) = e.seen {
                ctx.label(if self.dhcp_configured { "dhcp:renewing-request-sent" } else { "dhcp:requesting" });
            }
            self.responses += 1;
            out.push(e);
        }
        for e in &out {
            if self.recent.len() >= 12 {
                self.recent.pop_front();
            }
            self.recent.push_back(Emitted { seen: e.seen.clone(), ip: e.ip.clone() });
        }
        Ok(Some(out))
    }

    pub fn inject(&mut self, ctx: &mut Ctx, mut frame: Vec<u8>, what: &str) {
        let cap = if self.env.own.med == Med::Lowpan { 127 } else { self.env.own.mtu };
        frame.truncate(cap);
        ctx.digest.bytes(&frame);
        if let Some(l) = self.judge(&frame) {
            ctx.nontrivial = true;
            ctx.label(&format!("reach:{}", l));
        }
        ctx.note(|| format!("  -> inject {} ({} octets) {}", what, frame.len(), hex(&frame, 64)));
        if self.injected.len() >= 6 {
            self.injected.pop_front();
        }
        self.injected.push_back(frame.clone());
        self.node.inject(frame);
    }

    /// Socket-level observations after a poll: states visited, DNS / DHCP progress; drains
    /// receive buffers now and then so that windows move.
    pub fn sample(&mut self, src: &mut Src, ctx: &mut Ctx) {
        for (h, _, _, big) in self.socks.tcp.clone() {
            let s = self.node.sockets.get_mut::<tcp::Socket>(h);
            let st = s.state();
            ctx.label(&format!("tcp-state:{}", st));
            if big {
                ctx.label(&format!("tcp-state-big-window:{}", st));
            }
            if s.can_recv() && src.chance(1, 2) {
                let mut buf = [0u8; 512];
                let _ = s.recv_slice(&mut buf);
                ctx.label("app:tcp-recv");
            }
        }
        if let Some((h, qs)) = self.socks.dns.clone() {
            let s = self.node.sockets.get_mut::<dns::Socket>(h);
            let mut left = vec![];
            for q in qs {
                match s.get_query_result(q) {
                    Ok(_) => ctx.label("dns:completed"),
                    Err(dns::GetQueryResultError::Pending) => left.push(q),
                    Err(dns::GetQueryResultError::Failed) => ctx.label("dns:failed"),
                }
            }
            self.socks.dns = Some((h, left));
        }
        if let Some(h) = self.socks.dhcp {
            let s = self.node.sockets.get_mut::<dhcpv4::Socket>(h);
            match s.poll() {
                Some(dhcpv4::Event::Configured(_)) => {
                    self.dhcp_configured = true;
                    ctx.label("dhcp:configured");
                }
                Some(dhcpv4::Event::Deconfigured) => {
                    self.dhcp_configured = false;
                    ctx.label("dhcp:deconfigured");
                }
                None => {}
            }
        }
        for (h, _, _) in self.socks.udp.clone() {
            let s = self.node.sockets.get_mut::<udp::Socket>(h);
            if s.can_recv() {
                ctx.label("delivered:udp");
                if src.chance(1, 2) {
                    let _ = s.recv();
                }
            }
        }
        for h in self.socks.icmp.clone() {
            let s = self.node.sockets.get_mut::<icmp::Socket>(h);
            if s.can_recv() {
                ctx.label("delivered:icmp");
                let _ = s.recv();
            }
        }
        for h in self.socks.raw.clone() {
            let s = self.node.sockets.get_mut::<raw::Socket>(h);
            if s.can_recv() {
                ctx.label("delivered:raw");
                let _ = s.recv();
            }
        }
    }

    // ------------------------------------------------------------------ plain framing (setup and probe)

    /// Link frame for an IP datagram from (mac, ll) to the interface, without any draws.
    pub fn frame_plain(&mut self, mac: [u8; 6], ll: Ll, ip: &[u8]) -> Vec<u8> {
        match self.env.own.med {
            Med::Ip => ip.to_vec(),
            Med::Eth => Eth { dst: self.env.own.mac, src: mac, ethertype: if ip[0] >> 4 == 6 { ETH_IPV6 } else { ETH_IPV4 }, payload: ip.to_vec() }.encode(),
            Med::Lowpan => {
                let to = self.env.own.ll;
                let mode = EncMode { tf: 3, hlim_inline: false, sac: false, sam: 0, sci: 0, dac: false, dam: 0, dci: 0, force_cid: false, udp_nhc: false, udp_p: 0, udp_c: false };
                let (hdr, unc) = compress(ip, ll, to, &self.env.ctxs, &mode);
                self.env.seq154 = self.env.seq154.wrapping_add(1);
                let mut f = Mac::data(self.env.seq154, self.env.own.pan.unwrap_or(0xbeef), to, ll).encode();
                f.extend_from_slice(&hdr);
                f.extend_from_slice(&ip[unc..]);
                assert!(f.len() <= 127, "plain 6LoWPAN frame too long");
                f
            }
        }
    }

    /// Frames that make `peer` known to the neighbour cache: an ARP request for the own IPv4
    /// address, or a neighbour solicitation (with source link-layer address option) for the own
    /// link-local address.
    pub fn introduce(&mut self, mac: [u8; 6], ll: Ll, v4: [u8; 4], src6: [u8; 16], use_v6: bool) -> Option<Vec<u8>> {
        match self.env.own.med {
            Med::Ip => None,
            Med::Eth if !use_v6 => {
                let a = Arp { op: 1, sha: mac, spa: v4, tha: [0; 6], tpa: self.env.own.v4.unwrap() };
                Some(Eth { dst: MAC_BROADCAST, src: mac, ethertype: ETH_ARP, payload: a.encode() }.encode())
            }
            _ => {
                let target = if src6[..8] == LL_PREFIX { self.env.own.ll6 } else { self.env.own.g6 };
                let lladdr = if self.env.own.med == Med::Lowpan { ll_bytes(&ll) } else { mac.to_vec() };
                let (s, d) = (Ip::V6(src6), Ip::V6(target));
                let ns = nd_ns(&target, Some(&lladdr)).encode6(&s, &d);
                let mut p = Ip6::new(src6, target, PROTO_ICMPV6, ns);
                p.hop = 255;
                Some(self.frame_plain(mac, ll, &p.encode()))
            }
        }
    }

    /// Complete a handshake with a listening socket by crafted frames: SYN, read the SYN-ACK off the
    /// emitted frames, ACK. Returns false when the SYN-ACK did not appear (the case simply goes on).
    pub fn establish(&mut self, src: &Src, ctx: &mut Ctx, lport: u16, v6: bool, big: bool) -> Result<Option<bool>, Fail> {
        let p = self.env.peers[0].clone();
        let (rip, lip) = if v6 { (Ip::V6(p.g6), Ip::V6(self.env.own.g6)) } else { (Ip::V4(p.v4), Ip::V4(self.env.own.v4.unwrap())) };
        if let Some(f) = self.introduce(p.mac, p.ll, p.v4, p.g6, v6) {
            self.inject(ctx, f, "setup: peer introduces itself");
        }
        let rport = 1000;
        let iss: u32 = 0x1000_0000;
        let mut opts = vec![2, 4, 0x05, 0xb4];
        if big {
            opts.extend_from_slice(&[3, 3, 2, 4, 2]);
        }
        let syn = tcp_raw(rport, lport, iss, 0, SYN, 8192, 0, &opts, &[], &rip, &lip);
        let ipb = IpPkt::build(rip, lip, PROTO_TCP, 64, syn).encode();
        let f = self.frame_plain(p.mac, p.ll, &ipb);
        self.inject(ctx, f, "setup: SYN");
        self.now += 1;
        let Some(out) = self.poll(src, ctx, None)? else { return Ok(None) };
        let ci = self.env.conn_index((lip, lport), (rip, rport));
        let got = out.iter().any(|e| matches!(e.seen, Seen::Tcp { conn, flags, .. } if conn == ci && flags & (SYN | ACK) == (SYN | ACK)));
        if !got {
            return Ok(Some(false));
        }
        let c = self.env.conns[ci].clone();
        let ack = tcp_raw(rport, lport, iss.wrapping_add(1), c.s_seq.wrapping_add(1), ACK, 8192, 0, &[], &[], &rip, &lip);
        let ipb = IpPkt::build(rip, lip, PROTO_TCP, 64, ack).encode();
        let f = self.frame_plain(p.mac, p.ll, &ipb);
        self.inject(ctx, f, "setup: ACK of the SYN-ACK");
        self.now += 1;
        let Some(_) = self.poll(src, ctx, None)? else { return Ok(None) };
        self.env.conns[ci].p_nxt = iss.wrapping_add(1);
        Ok(Some(true))
    }

    // ------------------------------------------------------------------ independent judgement of an injected frame

    /// Some(label) when the independent decoders find the frame well-formed and addressed to the
    /// interface down to the transport header (i.e. it gets past link- and IP-layer validation).
    pub fn judge(&self, frame: &[u8]) -> Option<String> {
        match self.env.own.med {
            Med::Ip => self.judge_ip(frame),
            Med::Eth => {
                let e = decode_eth(frame).ok()?;
                if e.dst != self.env.own.mac && e.dst[0] & 1 == 0 {
                    return None;
                }
                match e.ethertype {
                    ETH_ARP => {
                        let a = decode_arp(&e.payload).ok()?;
                        if Some(a.tpa) == self.env.own.v4 {
                            Some(if a.op == 1 { "arp-request".into() } else { "arp-reply".into() })
                        } else {
                            None
                        }
                    }
                    ETH_IPV4 | ETH_IPV6 => self.judge_ip(&e.payload),
                    _ => None,
                }
            }
            Med::Lowpan => {
                let (mac, hl) = decode_mac(frame).ok()?;
                if mac.ftype != 1 || mac.security {
                    return None;
                }
                if !(mac.dst == self.env.own.ll || mac.dst.is_broadcast()) {
                    return None;
                }
                if let (Some(p), Some(q)) = (self.env.own.pan, mac.dst_pan) {
                    if p != q && q != 0xffff {
                        return None;
                    }
                }
                match decode_dispatch(&frame[hl..]).ok()? {
                    Lp::Iphc(p) => {
                        let dc = decompress(p, mac.src, mac.dst, &self.env.ctxs).ok()?;
                        let mut ip = dc.build(None);
                        if dc.udp_csum_elided {
                            if let Some(u) = dc.udp_at {
                                fill_udp_checksum(&mut ip, 40 + u);
                            }
                        }
                        self.judge_ip(&ip).map(|l| format!("6lo:{}", l))
                    }
                    Lp::Frag1 { size, rest, .. } => {
                        let dc = decompress(rest, mac.src, mac.dst, &self.env.ctxs).ok()?;
                        if size >= 40 + dc.hdrs.len() && self.env.is_for_us(&Ip::V6(dc.dst)) {
                            Some("6lo:frag1".into())
                        } else {
                            None
                        }
                    }
                    Lp::FragN { size, .. } => {
                        if size >= 40 {
                            Some("6lo:fragn".into())
                        } else {
                            None
                        }
                    }
                }
            }
        }
    }

    fn judge_ip(&self, ipb: &[u8]) -> Option<String> {
        let pkt = decode_ip(ipb, false).ok()?;
        let (s, d) = (pkt.src(), pkt.dst());
        if !self.env.is_for_us(&d) || s.is_multicast() {
            return None;
        }
        let fam = if s.is_v4() { "v4" } else { "v6" };
        if pkt.is_fragment() {
            return Some(format!("{}:fragment", fam));
        }
        let ext = match &pkt {
            IpPkt::V6(p) if !p.ext.is_empty() => {
                for e in &p.ext {
                    if e.kind == PROTO_HOPOPT || e.kind == PROTO_V6OPTS {
                        check_tlv_options(&e.body).ok()?;
                    }
                }
                "+ext"
            }
            IpPkt::V4(p) if !p.options.is_empty() => "+options",
            _ => "",
        };
        let pl = pkt.payload();
        let l4 = match pkt.proto() {
            PROTO_UDP => {
                let u = decode_udp(pl, &s, &d).ok()?;
                match (u.sport, u.dport) {
                    (67, 68) => "udp-dhcp",
                    (53, _) | (5353, _) => "udp-dns",
                    _ => "udp",
                }
            }
            PROTO_TCP => {
                decode_tcp(pl, &s, &d).ok()?;
                "tcp"
            }
            PROTO_ICMP if s.is_v4() => {
                let m = decode_icmp4(pl).ok()?;
                match m.ty {
                    8 => "icmp-echo-request",
                    0 => "icmp-echo-reply",
                    _ => "icmp-other",
                }
            }
            PROTO_ICMPV6 if !s.is_v4() => {
                let m = decode_icmp6(pl, &s, &d).ok()?;
                match m.ty {
                    128 => "icmp-echo-request",
                    129 => "icmp-echo-reply",
                    ND_NS => "ndisc-ns",
                    ND_NA => "ndisc-na",
                    ND_RS => "ndisc-rs",
                    ND_RA => "ndisc-ra",
                    137 => "ndisc-redirect",
                    130..=132 | 143 => "mld",
                    0..=127 => "icmp-error",
                    _ => "icmp-other",
                }
            }
            PROTO_IGMP if s.is_v4() => {
                if pl.len() >= 8 && ocsum(pl) == 0xffff {
                    "igmp"
                } else {
                    return None;
                }
            }
            _ => "other-protocol",
        };
        Some(format!("{}:{}{}", fam, l4, ext))
    }
}

/// Panic keys carry the normalised message; addresses in it would split one root cause into
/// many keys, so messages known to contain values are cut down to their constant part.
pub fn stable_key(k: &str) -> String {
    if let Some(i) = k.find("IP version mismatch") {
        return k[..i + "IP version mismatch".len()].to_string();
    }
    if let (Some(i), true) = (k.find(":IP address "), k.ends_with("is not unicast")) {
        return format!("{}:IP address is not unicast", &k[..i]);
    }
    k.to_string()
}

/// `ctx.report`, plus a development knob: with VERIF_C03_PAST=all (or a comma separated list of
/// key prefixes) those violations are only labelled ("violation:<key>") and the search goes on
/// behind findings that are not (yet) registered as known. Ignored in replay (strict) mode.
pub fn report(ctx: &mut Ctx, f: Fail) -> Result<(), Fail> {
    static PAST: std::sync::OnceLock<Vec<String>> = std::sync::OnceLock::new();
    let past = PAST.get_or_init(|| std::env::var("VERIF_C03_PAST").map(|v| v.split(',').map(|s| s.to_string()).collect()).unwrap_or_default());
    if !ctx.strict && past.iter().any(|p| p == "all" || f.key.starts_with(p.as_str())) {
        ctx.label(&format!("violation:{}", f.key));
        return Ok(());
    }
    ctx.report(f)
}

pub fn hex(b: &[u8], max: usize) -> String {
    let mut s: String = b.iter().take(max).map(|x| format!("{:02x}", x)).collect();
    if b.len() > max {
        s.push_str("..");
    }
    s
}

#[allow(dead_code)]
pub fn endpoint(ip: Ip, port: u16) -> IpEndpoint {
    IpEndpoint::new(ip.to_smol(), port)
}
