//! C03 helper: grammar of the control protocols: ARP, NDISC (NS/NA/RS/RA/Redirect
//! with every option), MLD, IGMP, DHCP replies, DNS responses. Small builders
//! written from the RFCs (826, 4861, 2710/3810, 1112/2236/3376, 2131/2132, 1035).

use super::env::*;
use super::gram::*;
use vkit::indep::*;
use vkit::Src;

// ------------------------------------------------------------------ ARP

pub fn gen_arp(src: &mut Src, env: &mut Env, answer_to: Option<[u8; 4]>) -> Pkt {
    let own = env.own.v4.unwrap_or([192, 168, 69, 1]);
    let peer = src.weighted(&[5, 2, 1]);
    let p = env.peers[peer].clone();
    let mut a = Arp { op: if answer_to.is_some() { 2 } else { 1 + src.draw(1) as u16 }, sha: p.mac, spa: answer_to.unwrap_or(p.v4), tha: if src.bool() { env.own.mac } else { [0; 6] }, tpa: own };
    let mut l2dst = if a.op == 1 && src.chance(3, 4) { L2Dst::Bcast } else { L2Dst::Own };
    if src.chance(1, 3) {
        match src.weighted(&[2, 1, 1, 1, 1, 1, 1, 1]) {
            0 => a.tpa = [own[0], own[1], own[2], 200],
            1 => a.spa = [10, 9, 8, 7],
            2 => a.spa = [255; 4],
            3 => a.spa = own,
            4 => a.sha = [0xff; 6],
            5 => a.sha = [0x01, 0, 0x5e, 1, 2, 3],
            6 => a.op = *src.pick(&[0u16, 3, 8, 65535]),
            _ => {
                a.spa = [0; 4];
                l2dst = L2Dst::Bcast;
            }
        }
    }
    let mut b = a.encode();
    if src.chance(1, 10) {
        // other hardware / protocol types and sizes
        match src.draw(3) {
            0 => b[1] = 6,
            1 => b[2] = 0x86,
            2 => b[4] = *src.pick(&[0u8, 8, 255]),
            _ => b[5] = *src.pick(&[0u8, 16, 255]),
        }
    }
    Pkt { body: Body::Arp(b), from: peer, l2dst, class: "arp" }
}

// ------------------------------------------------------------------ NDISC

fn lladdr_of(env: &Env, peer: usize) -> Vec<u8> {
    match env.own.med {
        Med::Lowpan => match env.peers[peer].ll {
            super::lowpan::Ll::Ext(e) => e.to_vec(),
            super::lowpan::Ll::Short(s) => s.to_vec(),
            super::lowpan::Ll::None => vec![],
        },
        _ => env.peers[peer].mac.to_vec(),
    }
}

/// One NDISC option (type, length in units of 8, body) - well-formed or not.
fn nd_option(src: &mut Src, env: &Env, peer: usize, kind: usize) -> Vec<u8> {
    match kind {
        0 | 1 => {
            // source / target link-layer address
            let ty = 1 + kind as u8;
            let l = match src.weighted(&[8, 1, 1, 1]) {
                0 => lladdr_of(env, peer),
                1 => vec![0xff; 6],
                2 => vec![0x33, 0x33, 0, 0, 0, 1],
                _ => {
                    let k = *src.pick(&[2usize, 8, 14, 6]);
                    src.bytes(k)
                }
            };
            encode_nd_opt(ty, &l)
        }
        2 => {
            // prefix information
            let plen = *src.pick(&[64u8, 64, 64, 0, 128, 63, 65, 10]);
            let flags = *src.pick(&[0xc0u8, 0x40, 0x80, 0, 0xff]);
            let lifetimes: [u32; 8] = [0, 1, 2, 30, 3600, 2592000, 0xffff_ffff, 0x7fff_ffff];
            let valid = *src.pick(&lifetimes);
            let pref = if src.chance(3, 4) { valid.min(*src.pick(&lifetimes)) } else { *src.pick(&lifetimes) };
            let prefix: [u8; 16] = match src.weighted(&[4, 3, 1, 2, 1, 1, 1]) {
                0 => v6addr(G_PREFIX, [0; 8]),
                1 => v6addr([0x20, 0x01, 0x0d, 0xb8, 0, 0, 0, 2 + src.draw(3) as u8], [0; 8]),
                2 => v6addr(LL_PREFIX, [0; 8]),
                3 => v6addr([0xff, 0x02, 0, 0, 0, 0, 0, src.draw(1) as u8], [0; 8]),
                4 => [0; 16],
                5 => v6addr([0xfe, 0xc0, 0, 0, 0, 0, 0, 0], [0; 8]),
                _ => {
                    let mut a = [0u8; 16];
                    a.copy_from_slice(&src.bytes(16));
                    a
                }
            };
            let mut b = vec![plen, flags];
            b.extend_from_slice(&valid.to_be_bytes());
            b.extend_from_slice(&pref.to_be_bytes());
            b.extend_from_slice(&[0; 4]);
            b.extend_from_slice(&prefix);
            encode_nd_opt(3, &b)
        }
        3 => {
            // MTU
            let mut b = vec![0, 0];
            b.extend_from_slice(&(*src.pick(&[1500u32, 1280, 0, 1, 68, 0xffff_ffff])).to_be_bytes());
            encode_nd_opt(5, &b)
        }
        4 => {
            // redirected header: 6 reserved + as much of the original packet as fits
            let o = env.own.g6;
            let inner = Ip6::new(o, env.peers[3].g6, PROTO_UDP, Udp::new(UDP_PORT_A, 9, payload_bytes(src, 40)).encode(&Ip::V6(o), &Ip::V6(env.peers[3].g6))).encode();
            let keep = match src.weighted(&[3, 1, 1]) {
                0 => inner.len(),
                1 => src.usize(0, inner.len()),
                _ => 40.min(inner.len()),
            };
            let mut b = vec![0; 6];
            b.extend_from_slice(&inner[..keep]);
            encode_nd_opt(4, &b)
        }
        5 => {
            // route information / RDNSS / unknown
            let ty = *src.pick(&[24u8, 25, 31, 14, 200, 0]);
            let k = 6 + 8 * src.usize(0, 3);
            encode_nd_opt(ty, &src.bytes(k))
        }
        6 => {
            // zero length
            let mut o = vec![*src.pick(&[1u8, 2, 3, 4, 5, 200]), 0];
            let k = src.usize(0, 14);
            o.extend(src.bytes(k));
            o
        }
        _ => {
            // length larger than what follows
            let mut o = vec![*src.pick(&[1u8, 2, 3, 4, 5, 200]), *src.pick(&[2u8, 5, 32, 255])];
            let k = src.usize(0, 14);
            o.extend(src.bytes(k));
            o
        }
    }
}

fn nd_options(src: &mut Src, env: &Env, peer: usize, usual: &[usize]) -> Vec<u8> {
    let mut b = vec![];
    for k in usual {
        if src.chance(7, 8) {
            b.extend(nd_option(src, env, peer, *k));
        }
    }
    while src.more(1, 4) && b.len() < 200 {
        let k = src.weighted(&[2, 2, 3, 2, 2, 2, 2, 2]);
        b.extend(nd_option(src, env, peer, k));
    }
    b
}

/// NS / NA / RS / RA / Redirect. `answer` = (kind, target or solicitor) when reflecting.
pub fn gen_ndisc(src: &mut Src, env: &mut Env, answer: Option<(u8, [u8; 16], [u8; 16])>) -> Pkt {
    let o = env.own.ll6;
    let g = env.own.g6;
    let ty = match answer {
        Some((t, _, _)) => t,
        None => *src.pick(&[ND_NS, ND_NS, ND_NA, ND_NA, ND_RA, ND_RA, ND_RA, ND_RS, 137]),
    };
    let mut peer = src.weighted(&[5, 2, 2]);
    if ty == ND_RA {
        peer = 2;
    }
    let p = env.peers[peer].clone();
    let mut s = if src.chance(3, 4) || ty == ND_RA || ty == 137 { p.ll6 } else { p.g6 };
    let mut d;
    let mut hop = 255u8;
    let icmp: Icmp = match ty {
        ND_NS => {
            let target = match src.weighted(&[5, 4, 1, 1]) {
                0 => o,
                1 => g,
                2 => p.ll6,
                _ => solicited_node(&o),
            };
            d = match src.weighted(&[5, 2, 1]) {
                0 => solicited_node(&target),
                1 => target,
                _ => ALL_NODES,
            };
            if src.chance(1, 12) {
                s = [0; 16]; // duplicate address detection
            }
            let mut body = target.to_vec();
            body.extend(nd_options(src, env, peer, &[0]));
            Icmp { ty, code: 0, rest: [0; 4], body }
        }
        ND_NA => {
            let (target, to) = match answer {
                Some((_, t, solicitor)) => (t, solicitor),
                None => (if src.chance(1, 8) { o } else if src.bool() { p.ll6 } else { p.g6 }, if src.bool() { o } else { g }),
            };
            // answering for an address: the advertisement comes from the address itself
            if answer.is_some() || src.chance(3, 4) {
                s = target;
            }
            d = if src.chance(1, 6) { ALL_NODES } else { to };
            let flags = *src.pick(&[0x60u8, 0x40, 0x20, 0xe0, 0, 0x80]);
            let mut body = target.to_vec();
            body.extend(nd_options(src, env, peer, &[1]));
            Icmp { ty, code: 0, rest: [flags, 0, 0, 0], body }
        }
        ND_RS => {
            d = if src.bool() { ALL_ROUTERS } else { o };
            Icmp { ty, code: 0, rest: [0; 4], body: nd_options(src, env, peer, &[0]) }
        }
        ND_RA => {
            d = if src.chance(2, 3) { ALL_NODES } else { o };
            let life = *src.pick(&[1800u16, 0, 1, 9000, 65535, 30]);
            let mut rest = [*src.pick(&[64u8, 0, 255, 1]), *src.pick(&[0u8, 0x80, 0x40, 0xc0, 0xff]), 0, 0];
            rest[2..4].copy_from_slice(&life.to_be_bytes());
            let mut body = vec![];
            body.extend_from_slice(&(*src.pick(&[0u32, 30000, 0xffff_ffff])).to_be_bytes());
            body.extend_from_slice(&(*src.pick(&[0u32, 1000, 0xffff_ffff])).to_be_bytes());
            body.extend(nd_options(src, env, peer, &[0, 2]));
            Icmp { ty, code: 0, rest, body }
        }
        _ => {
            // redirect
            d = if src.bool() { o } else { g };
            let mut body = vec![];
            body.extend_from_slice(&if src.bool() { p.ll6 } else { env.peers[0].ll6 });
            body.extend_from_slice(&env.peers[3].g6);
            body.extend(nd_options(src, env, peer, &[1, 4]));
            Icmp { ty: 137, code: 0, rest: [0; 4], body }
        }
    };
    if src.chance(1, 16) {
        hop = *src.pick(&[64u8, 254, 1, 0]);
    }
    if src.chance(1, 24) {
        d = g;
    }
    let (si, di) = (Ip::V6(s), Ip::V6(d));
    let mut pk = Ip6::new(s, d, PROTO_ICMPV6, icmp.encode6(&si, &di));
    pk.hop = hop;
    let class = match ty {
        ND_NS => "ndisc-ns",
        ND_NA => "ndisc-na",
        ND_RS => "ndisc-rs",
        ND_RA => "ndisc-ra",
        _ => "ndisc-redirect",
    };
    Pkt::v6(pk.encode(), peer, class)
}

// ------------------------------------------------------------------ MLD / IGMP

pub fn gen_mld(src: &mut Src, env: &mut Env) -> Pkt {
    let peer = src.weighted(&[3, 1, 4]);
    let p = env.peers[peer].clone();
    let s = if src.chance(7, 8) { p.ll6 } else { p.g6 };
    let ty = *src.pick(&[130u8, 130, 130, 130, 131, 132, 143]);
    let group: [u8; 16] = match src.weighted(&[4, 3, 2, 2, 1, 1]) {
        0 => [0; 16],
        1 => env.own.group6.unwrap_or(ALL_NODES),
        2 => solicited_node(&env.own.ll6),
        3 => ALL_NODES,
        4 => solicited_node(&env.own.g6),
        _ => [0xff, 0x05, 0, 0, 0, 0, 0, 0, 0, 0, 0, 0, 0, 1, 0, 3],
    };
    let d = match src.weighted(&[4, 3, 1, 1]) {
        0 => ALL_NODES,
        1 => {
            if group == [0; 16] {
                ALL_NODES
            } else {
                group
            }
        }
        2 => env.own.ll6,
        _ => [0xff, 2, 0, 0, 0, 0, 0, 0, 0, 0, 0, 0, 0, 0, 0, 0x16],
    };
    let mut rest = [0u8; 4];
    rest[0..2].copy_from_slice(&(*src.pick(&[1000u16, 0, 1, 10000, 0x8000, 0xffff])).to_be_bytes());
    let mut body = group.to_vec();
    if ty == 143 {
        // MLDv2 report: records
        body.clear();
        let n = src.usize(0, 3);
        rest[2..4].copy_from_slice(&(n as u16 + src.draw(1) as u16 * 7).to_be_bytes());
        for _ in 0..n {
            body.extend_from_slice(&[src.draw(6) as u8, src.draw(2) as u8, 0, src.draw(2) as u8]);
            body.extend_from_slice(&group);
        }
    } else if ty == 130 && src.chance(2, 3) {
        // MLDv2 query: S/QRV, QQIC, number of sources, sources
        let n = src.usize(0, 3);
        let claimed = if src.chance(1, 6) { *src.pick(&[1u16, 100, 65535]) } else { n as u16 };
        body.extend_from_slice(&[src.u8() & 0x0f, src.u8()]);
        body.extend_from_slice(&claimed.to_be_bytes());
        for _ in 0..n {
            body.extend_from_slice(&p.g6);
        }
    }
    let (si, di) = (Ip::V6(s), Ip::V6(d));
    let icmp = Icmp { ty, code: 0, rest, body };
    let mut pk = Ip6::new(s, d, PROTO_ICMPV6, icmp.encode6(&si, &di));
    pk.hop = if src.chance(7, 8) { 1 } else { *src.pick(&[64u8, 255, 0]) };
    if src.chance(3, 4) {
        pk.ext = vec![ExtHdr { kind: PROTO_HOPOPT, body: vec![5, 2, 0, 0, 1, 0] }];
    }
    Pkt::v6(pk.encode(), peer, "mld")
}

pub fn gen_igmp(src: &mut Src, env: &mut Env) -> Pkt {
    let peer = src.weighted(&[3, 1, 4]);
    let s = env.peers[peer].v4;
    let ty = *src.pick(&[0x11u8, 0x11, 0x11, 0x11, 0x12, 0x16, 0x17, 0x22, 0x13]);
    let group: [u8; 4] = match src.weighted(&[4, 4, 1, 1]) {
        0 => [0; 4],
        1 => env.own.group4.unwrap_or([224, 0, 0, 1]),
        2 => [224, 0, 0, 1],
        _ => [239, 1, 2, 3],
    };
    let d: [u8; 4] = match src.weighted(&[4, 3, 1, 1]) {
        0 => [224, 0, 0, 1],
        1 => {
            if group == [0; 4] {
                [224, 0, 0, 1]
            } else {
                group
            }
        }
        2 => env.own.v4.unwrap_or([224, 0, 0, 1]),
        _ => [224, 0, 0, 2],
    };
    let max_resp = *src.pick(&[100u8, 0, 1, 255, 10, 0x80]);
    let mut b = vec![ty, max_resp, 0, 0];
    b.extend_from_slice(&group);
    if ty == 0x11 && src.chance(1, 3) {
        // IGMPv3-sized query
        let n = src.usize(0, 3);
        b.extend_from_slice(&[src.u8() & 0x0f, src.u8()]);
        b.extend_from_slice(&(if src.chance(1, 6) { 1000 } else { n as u16 }).to_be_bytes());
        for _ in 0..n {
            b.extend_from_slice(&s);
        }
    }
    if ty == 0x22 {
        b.extend(src.bytes(8));
    }
    let c = !ocsum(&b);
    b[2..4].copy_from_slice(&c.to_be_bytes());
    let mut pk = Ip4::new(s, d, PROTO_IGMP, b);
    pk.ttl = if src.chance(7, 8) { 1 } else { 64 };
    pk.id = env.next_id();
    if src.bool() {
        pk.options = vec![148, 4, 0, 0];
    }
    Pkt::v4(pk.encode(), peer, "igmp")
}

// ------------------------------------------------------------------ DHCP

/// A BOOTP reply with DHCP options towards the client port. `msg`: 2 OFFER, 5 ACK, 6 NAK.
pub fn gen_dhcp_reply(src: &mut Src, env: &mut Env, msg: Option<u8>, proper: bool) -> Pkt {
    let obs = env.dhcp.clone();
    let server_peer = if proper { 2 } else { src.weighted(&[1, 1, 4, 1]) };
    let server = env.peers[server_peer].v4;
    let own = env.own.v4.unwrap_or([192, 168, 69, 1]);
    let msg = msg.unwrap_or_else(|| *src.pick(&[2u8, 5, 6, 2, 5, 1, 3, 4, 7, 8, 0, 200]));
    let xid = match &obs {
        Some(o) if proper || src.chance(7, 8) => o.xid,
        _ => src.u32(),
    };
    let yiaddr: [u8; 4] = if proper {
        obs.as_ref().and_then(|o| o.requested).unwrap_or([own[0], own[1], own[2], 50])
    } else {
        match src.weighted(&[6, 1, 1, 1, 1]) {
            0 => obs.as_ref().and_then(|o| o.requested).unwrap_or([own[0], own[1], own[2], 50]),
            1 => [0; 4],
            2 => [255; 4],
            3 => [224, 0, 0, 5],
            _ => [10, 0, 0, 9],
        }
    };
    let mut b = vec![0u8; 236];
    b[0] = if proper || src.chance(15, 16) { 2 } else { 1 };
    b[1] = 1;
    b[2] = 6;
    b[4..8].copy_from_slice(&xid.to_be_bytes());
    if src.bool() {
        b[10] = 0x80;
    }
    b[16..20].copy_from_slice(&yiaddr);
    b[20..24].copy_from_slice(&server);
    b[28..34].copy_from_slice(&if proper || src.chance(15, 16) { env.own.mac } else { env.peers[0].mac });
    if !proper && src.chance(1, 16) {
        b[1] = src.u8();
        b[2] = *src.pick(&[0u8, 16, 255]);
    }
    b.extend_from_slice(&if proper || src.chance(31, 32) { [0x63, 0x82, 0x53, 0x63] } else { [0x63, 0x82, 0x53, 0x64] });
    let opt = |b: &mut Vec<u8>, k: u8, d: &[u8]| {
        b.push(k);
        b.push(d.len() as u8);
        b.extend_from_slice(d);
    };
    opt(&mut b, 53, &[msg]);
    let lease: u32 = if proper { *src.pick(&[3600u32, 100, 7000, 10, 1]) } else { *src.pick(&[3600u32, 0, 1, 2, 0xffff_ffff, 0x7fff_ffff, 86400 * 365]) };
    if proper || src.chance(7, 8) {
        opt(&mut b, 54, &if proper || src.chance(7, 8) { server } else { *src.pick(&[[0u8; 4], [255; 4], [224, 0, 0, 1]]) });
    }
    if proper || src.chance(7, 8) {
        opt(&mut b, 51, &lease.to_be_bytes());
    }
    if proper || src.chance(7, 8) {
        opt(&mut b, 1, &if proper || src.chance(7, 8) { [255, 255, 255, 0] } else { *src.pick(&[[255u8, 0, 255, 0], [0; 4], [255; 4], [255, 255, 255, 254]]) });
    }
    if src.chance(3, 4) {
        let mut r = env.peers[2].v4.to_vec();
        if src.chance(1, 4) {
            r.extend_from_slice(&[own[0], own[1], own[2], 253]);
        }
        opt(&mut b, 3, &r);
    }
    if src.chance(3, 4) {
        let n = if proper { src.usize(1, 2) } else { src.usize(0, 6) };
        let mut d = vec![];
        for i in 0..n {
            d.extend_from_slice(&match src.weighted(&[6, 1, 1]) {
                0 => [own[0], own[1], own[2], 2 + i as u8],
                1 => [0; 4],
                _ => [255; 4],
            });
        }
        if !proper && src.chance(1, 8) {
            d.push(1);
        }
        opt(&mut b, 6, &d);
    }
    // T1 / T2: present together, alone or not at all, with values on both sides of the lease
    // (choices are appended to the lists so that saved tapes keep their meaning; None = absent)
    if if proper { src.chance(1, 3) } else { src.chance(1, 2) } {
        let t1: Option<u32> = if proper {
            Some(lease / 2)
        } else {
            *src.pick(&[Some(0u32), Some(1), Some(lease), Some(lease / 2), Some(0xffff_ffff), Some(lease.wrapping_add(1)), Some(lease.saturating_sub(1)), Some(lease.saturating_mul(2)), None])
        };
        let t2: Option<u32> = if proper {
            Some(lease / 8 * 7)
        } else {
            *src.pick(&[Some(0u32), Some(1), Some(lease), Some(lease / 8 * 7), Some(0xffff_ffff), Some(lease.wrapping_add(1)), None, None, Some(lease / 4)])
        };
        if let Some(t1) = t1 {
            opt(&mut b, 58, &t1.to_be_bytes());
        }
        if let Some(t2) = t2 {
            opt(&mut b, 59, &t2.to_be_bytes());
        }
    }
    if !proper {
        for _ in 0..src.usize(0, 3) {
            match src.weighted(&[2, 2, 1, 1, 1, 1]) {
                0 => b.push(0),
                1 => {
                    let k = src.usize(0, 12);
                    let d = src.bytes(k);
                    opt(&mut b, *src.pick(&[12u8, 15, 28, 42, 61, 119, 121, 250]), &d);
                }
                2 => opt(&mut b, 52, &[*src.pick(&[1u8, 2, 3, 0, 255])]),
                3 => {
                    // option length running past the packet
                    b.push(*src.pick(&[1u8, 3, 6, 51, 53, 54, 58, 61]));
                    b.push(*src.pick(&[200u8, 255, 5]));
                }
                4 => opt(&mut b, *src.pick(&[1u8, 51, 53, 54, 58, 59, 50, 57]), &[]),
                _ => opt(&mut b, *src.pick(&[1u8, 51, 53, 54, 57]), &[1, 2, 3, 4, 5, 6, 7][..src.usize(1, 7)]),
            }
        }
    }
    if proper || src.chance(7, 8) {
        b.push(255);
    }
    if !proper && src.chance(1, 8) {
        let k = src.usize(0, b.len());
        b.truncate(k);
    }
    let d: [u8; 4] = if src.bool() { [255; 4] } else { yiaddr };
    let (si, di) = (Ip::V4(server), Ip::V4(d));
    let sport = if proper || src.chance(15, 16) { 67 } else { 68 };
    let mut pk = Ip4::new(server, d, PROTO_UDP, Udp::new(sport, 68, b).encode(&si, &di));
    pk.id = env.next_id();
    let mut p = Pkt::v4(pk.encode(), server_peer, "dhcp-reply");
    p.l2dst = if src.bool() { L2Dst::Bcast } else { L2Dst::Own };
    p
}

// ------------------------------------------------------------------ DNS

fn dns_name(src: &mut Src, q_at: usize) -> Vec<u8> {
    match src.weighted(&[6, 2, 1, 1, 1, 1, 1]) {
        0 => vec![0xc0, q_at as u8],
        1 => b"\x05cname\x07example\x03com\x00".to_vec(),
        2 => vec![0xc0, *src.pick(&[0u8, 2, 11, 13, 200, 255])],
        3 => {
            // label longer than 63 / reserved label types
            let mut v = vec![*src.pick(&[64u8, 0x80, 0xbf, 63])];
            let k = src.usize(0, 70);
            v.extend(std::iter::repeat(b'a').take(k));
            v.push(0);
            v
        }
        4 => b"\x03www\xc0\x0c".to_vec(),
        5 => vec![0],
        _ => {
            let k = src.usize(0, 20);
            src.bytes(k)
        }
    }
}

/// A DNS response matching (or nearly matching) the pending query read off the emitted query.
pub fn gen_dns_reply(src: &mut Src, env: &mut Env, proper: bool) -> Pkt {
    let obs = env.dns.clone();
    let (own, port, server, sport, txid, question) = match &obs {
        Some(o) => (o.own, o.port, o.server, o.sport, o.txid, o.question.clone()),
        None => {
            let v6 = pick_v6(src, env);
            (own_unicast(src, env, v6), 40000, peer_ip(src, env, 0, v6), 53, src.u16(), b"\x07example\x03com\x00\x00\x01\x00\x01".to_vec())
        }
    };
    let qtype = if question.len() >= 4 { u16::from_be_bytes([question[question.len() - 4], question[question.len() - 3]]) } else { 1 };
    let mut flags: u16 = 0x8180;
    let mut id = txid;
    let mut qd: u16 = 1;
    let mut q = question.clone();
    if !proper {
        match src.weighted(&[6, 1, 1, 1, 1, 1, 1, 1]) {
            0 => {}
            1 => flags = 0x8183,
            2 => flags = *src.pick(&[0x0100u16, 0x8380, 0xf980, 0x8182, 0x8185, 0xffff]),
            3 => id = id.wrapping_add(1),
            4 => qd = *src.pick(&[0u16, 2, 65535]),
            5 => {
                let n = q.len();
                if n >= 4 {
                    q[n - 3] ^= 0x1d; // another question type
                }
            }
            6 => {
                if q.len() > 2 {
                    q[1] ^= 0x20; // another name
                }
            }
            _ => {
                let k = src.usize(0, q.len());
                q.truncate(k);
            }
        }
    }
    let mut answers: Vec<u8> = vec![];
    let n = if proper { src.usize(1, 3) } else { src.usize(0, 6) };
    let mut cname_pending = false;
    // one proper response in four points its CNAME at a name whose wire form is 252..=259 octets
    // long, around the 255-octet limit of a domain name and of the socket's name buffer
    // (decided from bits of the transaction id: no further draw)
    let cname_target: Vec<u8> = if proper && (id >> 4) & 3 == 0 {
        let total = 252 + ((id >> 6) & 7) as usize;
        let mut v = vec![];
        let mut remaining = total - 1;
        while remaining > 1 {
            let l = (remaining - 1).min(63);
            v.push(l as u8);
            v.extend(std::iter::repeat(b'a' + (v.len() % 26) as u8).take(l));
            remaining -= 1 + l;
        }
        v.push(0);
        v
    } else {
        b"\x05cname\x07example\x03com\x00".to_vec()
    };
    for i in 0..n {
        let ty: u16 = if proper {
            if i == 0 && n > 1 && src.chance(1, 3) {
                5
            } else {
                qtype
            }
        } else {
            *src.pick(&[1u16, 28, 5, 16, qtype, 41, 0, 255])
        };
        let name = if proper {
            if cname_pending {
                cname_target.clone()
            } else {
                vec![0xc0, 12]
            }
        } else {
            dns_name(src, 12)
        };
        answers.extend_from_slice(&name);
        answers.extend_from_slice(&ty.to_be_bytes());
        answers.extend_from_slice(&(if proper || src.chance(7, 8) { 1u16 } else { 0x8001 }).to_be_bytes());
        answers.extend_from_slice(&(*src.pick(&[60u32, 0, 0xffff_ffff])).to_be_bytes());
        let rdata: Vec<u8> = match ty {
            1 => vec![192, 168, 69, 80 + i as u8],
            28 => env.peers[0].g6.to_vec(),
            5 => {
                cname_pending = true;
                if proper {
                    cname_target.clone()
                } else {
                    dns_name(src, 12)
                }
            }
            _ => {
                let k = src.usize(0, 30);
                src.bytes(k)
            }
        };
        let rdlen = if proper || src.chance(7, 8) { rdata.len() as u16 } else { *src.pick(&[0u16, 3, 5, 17, 300, 65535]) };
        answers.extend_from_slice(&rdlen.to_be_bytes());
        answers.extend_from_slice(&rdata);
    }
    let an = if proper || src.chance(7, 8) { n as u16 } else { *src.pick(&[0u16, 1, 7, 65535]) };
    let mut b = vec![];
    b.extend_from_slice(&id.to_be_bytes());
    b.extend_from_slice(&flags.to_be_bytes());
    b.extend_from_slice(&qd.to_be_bytes());
    b.extend_from_slice(&an.to_be_bytes());
    b.extend_from_slice(&(if proper { 0u16 } else { *src.pick(&[0u16, 0, 1, 9]) }).to_be_bytes());
    b.extend_from_slice(&(if proper { 0u16 } else { *src.pick(&[0u16, 0, 1, 9]) }).to_be_bytes());
    b.extend_from_slice(&q);
    b.extend_from_slice(&answers);
    if !proper && src.chance(1, 8) {
        let k = src.usize(0, b.len());
        b.truncate(k);
    }
    // a multicast "server" (mDNS query): answer from an on-link host
    let s = if server.is_multicast() { peer_ip(src, env, 0, !server.is_v4()) } else { server };
    let s = if !proper && src.chance(1, 12) { peer_ip(src, env, 1, !s.is_v4()) } else { s };
    let d = if own.is_unspecified() || own.is_multicast() { own_unicast(src, env, !s.is_v4()) } else { own };
    let from = env.peer_of(&s);
    let dport = if proper || src.chance(15, 16) { port } else { port.wrapping_add(1) };
    let mut pkt = IpPkt::build(s, d, PROTO_UDP, 64, Udp::new(sport, dport, b).encode(&s, &d));
    if let IpPkt::V4(p) = &mut pkt {
        p.id = env.next_id();
    }
    Pkt::ip(&pkt, from, "dns-response")
}
