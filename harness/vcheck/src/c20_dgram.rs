//! C20: configuration generator, UDP / ICMPv6 echo cases, permutation part and exhaustive phase.

use super::lowpan::*;
use super::world::*;
use serde_json::json;
use smoltcp::iface::SocketHandle;
use smoltcp::phy::PacketMeta;
use smoltcp::socket::{icmp, raw, udp};
use smoltcp::wire::{IpEndpoint, IpProtocol, IpVersion};
use vkit::indep::*;
use vkit::runner::{guarded, panic_in_smoltcp, panic_key, Fail, PhaseResult, RunEnv, Tier};
use vkit::sim::tcpbed::prf_bytes;
use vkit::sim::{Hw, Node};
use vkit::{Ctx, Src};

// ------------------------------------------------------------------ configuration

pub fn mixh(seed: u64, i: u64) -> u64 {
    let mut x = seed ^ i.wrapping_mul(0x9E3779B97F4A7C15) ^ 0xD1B54A32D192ED03;
    x ^= x >> 31;
    x = x.wrapping_mul(0xBF58476D1CE4E5B9);
    x ^= x >> 29;
    x = x.wrapping_mul(0x94D049BB133111EB);
    x ^ (x >> 32)
}


/// Hardware address: kind 0 = extended, 1 = short.
pub fn make_hw(kind: u64, seed: u64, pan: Option<u16>) -> (Hw, Ll) {
    if kind == 0 {
        let mut e = mixh(seed, 1).to_be_bytes();
        if seed & 3 == 0 {
            e[0] &= !0x02;
        }
        (Hw::Ieee(e, pan), Ll::Ext(e))
    } else {
        let mut s = (mixh(seed, 2) as u16).to_be_bytes();
        if s == [0xff, 0xff] || s == [0xff, 0xfe] {
            s = [0x12, 0x34];
        }
        (Hw::IeeeShort(s, pan), Ll::Short(s))
    }
}

pub fn ll_addr(class: u64, ll: Ll, seed: u64, pan: Option<u16>) -> [u8; 16] {
    let mut a = [0u8; 16];
    a[0] = 0xfe;
    a[1] = 0x80;
    let r = mixh(seed, 3).to_be_bytes();
    match class {
        0 => a[8..].copy_from_slice(&ll.iid().unwrap()),
        1 => {
            a[8..14].copy_from_slice(&[0, 0, 0, 0xff, 0xfe, 0]);
            let mut x = [r[0], r[1]];
            if ll == Ll::Short(x) {
                x[1] ^= 1;
            }
            a[14] = x[0];
            a[15] = x[1];
        }
        2 => {
            a[8..].copy_from_slice(&r);
            a[8] &= 0xfd; // keep it apart from the derived forms
            if a[8..] == [0; 8] {
                a[15] = 9;
            }
        }
        _ => match ll {
            // EUI-64 without the universal/local flip, or the RFC 4944 PAN-qualified short form
            Ll::Ext(e) => a[8..].copy_from_slice(&e),
            Ll::Short(s) => {
                let p = pan.unwrap_or(0x0bad).max(1).to_be_bytes();
                a[8..].copy_from_slice(&[p[0], p[1], 0, 0xff, 0xfe, 0, s[0], s[1]]);
            }
            Ll::None => unreachable!(),
        },
    }
    a
}

pub fn g_addr(class: u64, ll: Ll, seed: u64, prefix: &[u8; 8]) -> [u8; 16] {
    let mut a = [0u8; 16];
    a[..8].copy_from_slice(prefix);
    let r = mixh(seed, 4).to_be_bytes();
    match class {
        0 => a[8..].copy_from_slice(&ll.iid().unwrap()),
        1 => {
            a[8..14].copy_from_slice(&[0, 0, 0, 0xff, 0xfe, 0]);
            a[14] = r[0];
            a[15] = r[1] | 1;
        }
        _ => {
            a[8..].copy_from_slice(&r);
            a[15] |= 1;
        }
    }
    a
}

pub const G_PREFIXES: [[u8; 8]; 2] = [[0xfd, 0, 0, 0, 0, 0, 0, 0], [0x20, 0x01, 0x0d, 0xb8, 0, 1, 0, 2]];

#[derive(Clone, Debug)]
pub struct Classes {
    pub hw: [u64; 2],
    pub llc: [u64; 2],
    pub gc: [u64; 2],
    pub prefix: u64,
    pub pan: Option<u16>,
    pub seed: u64,
    pub mtu: usize,
}

pub fn draw_classes(src: &mut Src) -> Classes {
    let hw = [src.weighted(&[3, 1]) as u64, src.weighted(&[4, 1]) as u64];
    let llc = [src.draw(3), src.draw(3)];
    let gc = [src.draw(2), src.draw(2)];
    let prefix = src.draw(1);
    let pan = if src.chance(1, 12) { None } else { Some(*src.pick(&[0xabcdu16, 0x0001, 0xfffe, 0x1234])) };
    let seed = src.u64();
    let mtu = *src.pick(&[1280usize, 125, 127, 1500]);
    Classes { hw, llc, gc, prefix, pan, seed, mtu }
}

pub fn make_cfg(c: &Classes) -> Cfg {
    let mut n = vec![];
    for i in 0..2 {
        let s = mixh(c.seed, 100 + i as u64);
        let (hw, ll) = make_hw(c.hw[i], s, c.pan);
        let la = ll_addr(c.llc[i], ll, s, c.pan);
        let ga = g_addr(c.gc[i], ll, s, &G_PREFIXES[c.prefix as usize]);
        n.push(NodeCfg { hw, ll, addrs: vec![la, ga], seed: mixh(s, 7) });
    }
    // the two nodes must not end up with the same address
    if n[0].addrs[0] == n[1].addrs[0] {
        n[1].addrs[0][15] ^= 0x40;
    }
    if n[0].addrs[1] == n[1].addrs[1] {
        n[1].addrs[1][15] ^= 0x40;
    }
    let n1 = n.pop().unwrap();
    let n0 = n.pop().unwrap();
    Cfg { pan: c.pan, n: [n0, n1], mtu: c.mtu }
}

pub fn describe_cfg(c: &Cfg) -> String {
    format!(
        "pan={:?} mtu={} | A hw={} addrs=[{}, {}] | B hw={} addrs=[{}, {}]",
        c.pan.map(|p| format!("{:#06x}", p)),
        c.mtu,
        c.n[0].ll,
        a2s(&c.n[0].addrs[0]),
        a2s(&c.n[0].addrs[1]),
        c.n[1].ll,
        a2s(&c.n[1].addrs[0]),
        a2s(&c.n[1].addrs[1])
    )
}

/// class of an address as seen from a node with link-layer address `ll`
pub fn addr_class(a: &[u8; 16], ll: Ll) -> &'static str {
    let derived = ll.iid().map(|i| a[8..] == i).unwrap_or(false);
    let form16 = a[8..14] == [0, 0, 0, 0xff, 0xfe, 0];
    if a[0] == 0xff {
        if *a == solicited_node(a) {
            return "mcast-solicited-node";
        }
        if a[1] == 2 && a[2..15] == [0; 13] {
            return "mcast-8bit";
        }
        if a[2..13] == [0; 11] {
            return "mcast-32bit";
        }
        if a[2..11] == [0; 9] {
            return "mcast-48bit";
        }
        return "mcast-inline";
    }
    let ll_prefix = a[..8] == [0xfe, 0x80, 0, 0, 0, 0, 0, 0];
    match (ll_prefix, derived, form16) {
        (true, true, _) => match ll {
            Ll::Short(_) => "ll-derived-short",
            _ => "ll-derived-ext",
        },
        (true, false, true) => "ll-16bit-form",
        (true, false, false) => "ll-other-iid",
        (false, true, _) => "global-derived-iid",
        (false, false, true) => "global-16bit-form",
        _ => "global-other-iid",
    }
}

pub fn port_class(s: u16, d: u16) -> &'static str {
    let f0b = |p: u16| p >> 4 == 0xf0b;
    let f0 = |p: u16| p >> 8 == 0xf0;
    if f0b(s) && f0b(d) {
        "ports-4bit"
    } else if f0(s) && f0(d) {
        "ports-both-f0xx"
    } else if f0(s) {
        "ports-src-8bit"
    } else if f0(d) {
        "ports-dst-8bit"
    } else {
        "ports-inline"
    }
}

pub fn hop_class(h: u8) -> &'static str {
    match h {
        1 => "hop-1",
        64 => "hop-64",
        255 => "hop-255",
        _ => "hop-other",
    }
}

pub fn frag_bucket(n: usize) -> &'static str {
    match n {
        0 | 1 => "frags-1",
        2 => "frags-2",
        3 => "frags-3",
        4 => "frags-4",
        5..=8 => "frags-5to8",
        _ => "frags-9plus",
    }
}

pub fn draw_port(src: &mut Src) -> u16 {
    match src.weighted(&[3, 3, 3]) {
        0 => 0xf0b0 + src.draw(15) as u16,
        1 => 0xf000 + src.draw(255) as u16,
        _ => *src.pick(&[5683u16, 1, 1023, 0xefff, 0xf100, 0xffff, 0xf0af, 0xf0c0, 0x00b0, 61616]),
    }
}

pub fn draw_hop(src: &mut Src) -> u8 {
    match src.weighted(&[2, 2, 2, 2]) {
        0 => 64,
        1 => 1,
        2 => 255,
        _ => *src.pick(&[2u8, 63, 65, 128, 254, 7]),
    }
}

// ------------------------------------------------------------------ sockets and events

#[derive(Clone, Debug, Default)]
pub struct SockSpec {
    pub udp_ports: Vec<u16>,
    pub icmp_ident: Option<u16>,
    /// also observe whole UDP datagrams with a raw socket (suppresses port-unreachable
    /// replies, so only where every datagram is addressed to a bound port)
    pub raw_udp: bool,
}

#[derive(Clone, Debug, Default)]
pub struct Socks {
    pub udp: Vec<(SocketHandle, u16)>,
    pub icmp: Option<(SocketHandle, u16)>,
    /// raw sockets (added last): they see every decompressed datagram of their protocol
    /// with its IPv6 header, the only place where the receiver's view of the header
    /// fields (hop limit, lengths, addresses) can be observed
    pub raw: Vec<SocketHandle>,
}

pub fn make_socks(node: &mut Node, spec: &SockSpec) -> Socks {
    let mut s = Socks::default();
    for p in &spec.udp_ports {
        let rx = udp::PacketBuffer::new(vec![udp::PacketMetadata::EMPTY; 12], vec![0u8; 24_000]);
        let tx = udp::PacketBuffer::new(vec![udp::PacketMetadata::EMPTY; 6], vec![0u8; 13_500]);
        let mut sock = udp::Socket::new(rx, tx);
        sock.bind(*p).expect("udp bind");
        s.udp.push((node.sockets.add(sock), *p));
    }
    if let Some(id) = spec.icmp_ident {
        let rx = icmp::PacketBuffer::new(vec![icmp::PacketMetadata::EMPTY; 12], vec![0u8; 24_000]);
        let tx = icmp::PacketBuffer::new(vec![icmp::PacketMetadata::EMPTY; 6], vec![0u8; 13_500]);
        let mut sock = icmp::Socket::new(rx, tx);
        sock.bind(icmp::Endpoint::Ident(id)).expect("icmp bind");
        s.icmp = Some((node.sockets.add(sock), id));
    }
    let mut protos = vec![IpProtocol::Icmpv6];
    if spec.raw_udp {
        protos.push(IpProtocol::Udp);
    }
    for p in protos {
        let rx = raw::PacketBuffer::new(vec![raw::PacketMetadata::EMPTY; 16], vec![0u8; 40_000]);
        let tx = raw::PacketBuffer::new(vec![raw::PacketMetadata::EMPTY; 1], vec![0u8; 64]);
        s.raw.push(node.sockets.add(raw::Socket::new(Some(IpVersion::Ipv6), Some(p), rx, tx)));
    }
    s
}

/// Whole IPv6 datagrams (header included) the receiver's raw sockets were given.
pub fn read_raw(node: &mut Node, socks: &Socks) -> Vec<Vec<u8>> {
    let mut v = vec![];
    for h in &socks.raw {
        let s = node.sockets.get_mut::<raw::Socket>(*h);
        while let Ok(data) = s.recv() {
            v.push(data.to_vec());
        }
    }
    v
}

#[derive(Clone, Debug, PartialEq, Eq)]
pub enum Ev {
    Udp { sock: usize, payload: Vec<u8>, src: [u8; 16], sport: u16, dst: [u8; 16] },
    Icmp { bytes: Vec<u8>, src: [u8; 16] },
}

impl Ev {
    pub fn brief(&self) -> String {
        match self {
            Ev::Udp { sock, payload, src, sport, dst } => format!("udp socket #{} got {} octets from [{}]:{} sent to {}", sock, payload.len(), a2s(src), sport, a2s(dst)),
            Ev::Icmp { bytes, src } => format!("icmp socket got {} octets (type {}) from {}", bytes.len(), bytes.first().copied().unwrap_or(0), a2s(src)),
        }
    }
    fn data(&self) -> &[u8] {
        match self {
            Ev::Udp { payload, .. } => payload,
            Ev::Icmp { bytes, .. } => bytes,
        }
    }
}

pub fn read_events(node: &mut Node, socks: &Socks) -> Vec<Ev> {
    let mut v = vec![];
    for (k, (h, _)) in socks.udp.iter().enumerate() {
        let s = node.sockets.get_mut::<udp::Socket>(*h);
        while let Ok((data, meta)) = s.recv() {
            v.push(Ev::Udp { sock: k, payload: data.to_vec(), src: from_ipa(meta.endpoint.addr), sport: meta.endpoint.port, dst: meta.local_address.map(from_ipa).unwrap_or([0; 16]) });
        }
    }
    if let Some((h, _)) = socks.icmp {
        let s = node.sockets.get_mut::<icmp::Socket>(h);
        while let Ok((data, addr)) = s.recv() {
            v.push(Ev::Icmp { bytes: data.to_vec(), src: from_ipa(addr) });
        }
    }
    v
}

/// The socket event a receiver with `socks` should produce for datagram `pkt`.
pub fn event_for(pkt: &Ip6, socks: &Socks) -> Option<Ev> {
    match pkt.proto {
        PROTO_UDP if pkt.payload.len() >= 8 => {
            let sport = u16::from_be_bytes([pkt.payload[0], pkt.payload[1]]);
            let dport = u16::from_be_bytes([pkt.payload[2], pkt.payload[3]]);
            let k = socks.udp.iter().position(|(_, p)| *p == dport)?;
            Some(Ev::Udp { sock: k, payload: pkt.payload[8..].to_vec(), src: pkt.src, sport, dst: pkt.dst })
        }
        PROTO_ICMPV6 if pkt.payload.len() >= 8 && (pkt.payload[0] == 128 || pkt.payload[0] == 129) => {
            let id = u16::from_be_bytes([pkt.payload[4], pkt.payload[5]]);
            match socks.icmp {
                Some((_, i)) if i == id => Some(Ev::Icmp { bytes: pkt.payload.clone(), src: pkt.src }),
                _ => None,
            }
        }
        _ => None,
    }
}

// ------------------------------------------------------------------ what the applications send

#[derive(Clone, Debug)]
pub struct Sent {
    pub from: usize,
    pub proto: u8,
    pub sock: usize,
    pub src: Option<[u8; 16]>,
    pub dst: [u8; 16],
    pub sport: u16,
    pub dport: u16,
    pub ident: u16,
    pub seq: u16,
    pub payload: Vec<u8>,
    pub hop: u8,
    /// length of the IPv6 datagram
    pub total: usize,
    pub queued: bool,
    pub tx: Option<usize>,
    pub reply_tx: Option<usize>,
    pub twin_rx: bool,
    pub twin_reply: bool,
}

impl Sent {
    pub fn brief(&self) -> String {
        if self.proto == PROTO_UDP {
            format!("UDP {}:{} -> [{}]:{} {} payload octets hop {} (IPv6 length {})", self.src.map(|a| a2s(&a)).unwrap_or("(selected)".into()), self.sport, a2s(&self.dst), self.dport, self.payload.len(), self.hop, self.total)
        } else {
            format!("ICMPv6 echo request -> {} ident {:#06x} seq {} {} data octets hop {} (IPv6 length {})", a2s(&self.dst), self.ident, self.seq, self.payload.len(), self.hop, self.total)
        }
    }
    /// the datagram octets this application send must produce, given the source address used
    pub fn expected_bytes(&self, src: &[u8; 16]) -> Vec<u8> {
        let (s, d) = (Ip::V6(*src), Ip::V6(self.dst));
        let l4 = if self.proto == PROTO_UDP { Udp::new(self.sport, self.dport, self.payload.clone()).encode(&s, &d) } else { Icmp::echo(true, true, self.ident, self.seq, self.payload.clone()).encode6(&s, &d) };
        let mut p = Ip6::new(*src, self.dst, self.proto, l4);
        p.hop = self.hop;
        p.encode()
    }
    pub fn expected_reply_bytes(&self, req_src: &[u8; 16], reply_src: &[u8; 16]) -> Vec<u8> {
        let (s, d) = (Ip::V6(*reply_src), Ip::V6(*req_src));
        let l4 = Icmp::echo(true, false, self.ident, self.seq, self.payload.clone()).encode6(&s, &d);
        let mut p = Ip6::new(*reply_src, *req_src, PROTO_ICMPV6, l4);
        p.hop = 64;
        p.encode()
    }
}

pub fn queue(w: &mut World, socks: &[Socks; 2], s: &mut Sent) {
    let any = Ip::V6(w.s[s.from].addrs[0]);
    let node = &mut w.s[s.from].node;
    if s.proto == PROTO_UDP {
        let sock = node.sockets.get_mut::<udp::Socket>(socks[s.from].udp[s.sock].0);
        sock.set_hop_limit(Some(s.hop));
        let meta = udp::UdpMetadata { endpoint: IpEndpoint::new(ipa(&s.dst), s.dport), local_address: s.src.map(|a| ipa(&a)), meta: PacketMeta::default() };
        s.queued = sock.send_slice(&s.payload, meta).is_ok();
    } else {
        let sock = node.sockets.get_mut::<icmp::Socket>(socks[s.from].icmp.unwrap().0);
        sock.set_hop_limit(Some(s.hop));
        let bytes = Icmp::echo(true, true, s.ident, s.seq, s.payload.clone()).encode6(&any, &Ip::V6(s.dst));
        s.queued = sock.send_slice(&bytes, ipa(&s.dst)).is_ok();
    }
    if s.queued && s.total > 2047 && w.lowpan {
        w.oversize_pending = true;
    }
}

pub fn first_diff(a: &[u8], b: &[u8]) -> String {
    if a.len() != b.len() {
        return format!("length {} vs {}", a.len(), b.len());
    }
    match a.iter().zip(b.iter()).position(|(x, y)| x != y) {
        Some(i) => {
            let what = match i {
                0..=3 => "version/traffic class/flow label",
                4..=5 => "payload length",
                6 => "next header",
                7 => "hop limit",
                8..=23 => "source address",
                24..=39 => "destination address",
                40..=41 => "upper-layer octets 0-1 (source port / type+code)",
                42..=43 => "upper-layer octets 2-3 (destination port / checksum)",
                44..=45 => "upper-layer octets 4-5 (UDP length / ident)",
                46..=47 => "upper-layer octets 6-7 (UDP checksum / seq)",
                _ => "payload",
            };
            let n = a.iter().zip(b.iter()).filter(|(x, y)| x != y).count();
            format!("first difference at octet {} ({}): {:#04x} vs {:#04x}; {} octets differ", i, what, a[i], b[i], n)
        }
        None => "identical".into(),
    }
}

// ------------------------------------------------------------------ the datagram application (oracles 1, 2, 4)

pub struct DgramApp {
    pub socks: [Socks; 2],
    pub sent: Vec<Sent>,
    pub delivered_events: u64,
    pub raw_checked: u64,
    pub beyond_model: u64,
    pub idle: u32,
    pub last_frames: usize,
}

impl DgramApp {
    fn match_tx(&mut self, w: &mut World, side: usize, id: usize) -> Result<(), Fail> {
        let d = &w.s[side].an.dgrams[id];
        let pkt = d.pkt.clone().expect("complete datagram has a decoded packet");
        let bytes = d.bytes.clone();
        if pkt.proto == PROTO_ICMPV6 && (133..=137).contains(&pkt.payload[0]) {
            if pkt.hop != 255 {
                return Err(Fail::new("egress:ndisc-hop-limit", format!("neighbour discovery message type {} reconstructed with hop limit {}", pkt.payload[0], pkt.hop)));
            }
            w.s[side].an.dgrams[id].matched = true;
            return Ok(());
        }
        let own = w.s[side].addrs.clone();
        // something this side's application sent?
        let mut best: Option<(usize, String)> = None;
        for (k, s) in self.sent.iter().enumerate() {
            if s.from != side || !s.queued || s.tx.is_some() || s.proto != pkt.proto {
                continue;
            }
            let src = match s.src {
                Some(a) => a,
                None => {
                    if own.contains(&pkt.src) {
                        pkt.src
                    } else {
                        own[0]
                    }
                }
            };
            let mut exp = s.expected_bytes(&src);
            if s.proto == PROTO_UDP && exp.len() == bytes.len() && exp[46..48] == [0xff, 0xff] && bytes[46..48] == [0, 0] {
                // reported on its own (checksum 0 instead of 0xffff); not a second difference
                exp[46] = 0;
                exp[47] = 0;
            }
            if exp == bytes {
                self.sent[k].tx = Some(id);
                let dg = &mut w.s[side].an.dgrams[id];
                dg.matched = true;
                dg.app = Some(k);
                return Ok(());
            }
            if pkt.proto == PROTO_ICMPV6 && pkt.payload[0] != 128 {
                continue;
            }
            let diff = first_diff(&bytes, &exp);
            if best.is_none() || exp.len() == bytes.len() {
                best = Some((k, diff));
            }
        }
        // an automatic echo reply to a request of the other side?
        if pkt.proto == PROTO_ICMPV6 && pkt.payload[0] == 129 {
            let mut diff = String::new();
            for (k, s) in self.sent.iter().enumerate() {
                if s.from == side || s.proto != PROTO_ICMPV6 || s.reply_tx.is_some() {
                    continue;
                }
                let Some(txid) = s.tx else { continue };
                let req_src = w.s[1 - side].an.dgrams[txid].pkt.as_ref().map(|p| p.src).unwrap_or([0; 16]);
                let reply_src = if s.dst[0] == 0xff { pkt.src } else { s.dst };
                if s.dst[0] == 0xff && !own.contains(&pkt.src) {
                    continue;
                }
                let exp = s.expected_reply_bytes(&req_src, &reply_src);
                if exp == bytes {
                    self.sent[k].reply_tx = Some(id);
                    let dg = &mut w.s[side].an.dgrams[id];
                    dg.matched = true;
                    dg.app = Some(k);
                    return Ok(());
                }
                diff = first_diff(&bytes, &exp);
            }
            return Err(Fail::new(
                "egress:echo-reply-differs-from-request",
                format!("node {} emitted an echo reply ({} octets, ident {:#06x} seq {}) that equals the reply to no outstanding request ({})", side, bytes.len(), u16::from_be_bytes([pkt.payload[4], pkt.payload[5]]), u16::from_be_bytes([pkt.payload[6], pkt.payload[7]]), diff),
            ));
        }
        let (what, diff) = match best {
            Some((k, d)) => (self.sent[k].brief(), d),
            None => ("(nothing outstanding)".into(), String::new()),
        };
        Err(Fail::new(
            "egress:reconstructed-datagram-differs-from-what-was-sent",
            format!(
                "node {}: frames decode (independent IPHC/NHC decompression + reassembly) to {} -> {} proto {} hop {} length {} [IPHC modes {:?}], which is not the datagram the application sent; closest: {}; {}",
                side,
                a2s(&pkt.src),
                a2s(&pkt.dst),
                pkt.proto,
                pkt.hop,
                bytes.len(),
                w.s[side].an.dgrams[id].modes,
                what,
                diff
            ),
        ))
    }

    fn twin_ok(&self, d: &TxDgram, sender: usize) -> bool {
        match d.app {
            Some(k) => {
                let s = &self.sent[k];
                if s.from == sender {
                    s.twin_rx
                } else {
                    s.twin_reply
                }
            }
            None => true,
        }
    }

    fn check_events(&mut self, w: &mut World, side: usize, ctx: &mut Ctx) -> Result<(), Fail> {
        let o = 1 - side;
        // whatever reaches a raw socket is a decompressed, reassembled datagram: it must be, octet
        // for octet (IPv6 header included), one of the datagrams the independent decoder
        // reconstructed from the other node's frames
        for got in read_raw(&mut w.s[side].node, &self.socks[side]) {
            if w.tainted {
                continue;
            }
            if !w.s[o].an.dgrams.iter().any(|d| d.complete && d.bytes == got) {
                let near = w.s[o].an.dgrams.iter().filter(|d| d.complete && d.bytes.len() == got.len()).map(|d| first_diff(&got, &d.bytes)).last().unwrap_or("no datagram of that length was sent".into());
                return Err(Fail::new(
                    "ingress:decompressed-datagram-differs-from-what-was-sent",
                    format!("node {}: a raw socket received an IPv6 datagram of {} octets (next header {}, hop limit {}) that equals no datagram node {} transmitted; {}", side, got.len(), got.get(6).copied().unwrap_or(0), got.get(7).copied().unwrap_or(0), o, near),
                ));
            }
            self.raw_checked += 1;
        }
        let ids = std::mem::take(&mut w.s[side].completed);
        let mut expected: Vec<(Ev, usize)> = vec![];
        for id in ids {
            let d = &w.s[o].an.dgrams[id];
            let Some(pkt) = &d.pkt else { continue };
            if let Some(ev) = event_for(pkt, &self.socks[side]) {
                if self.twin_ok(d, o) {
                    expected.push((ev, id));
                }
            }
        }
        let actual = read_events(&mut w.s[side].node, &self.socks[side]);
        for ev in actual {
            ctx.note(|| format!("    [{}] {}", side, ev.brief()));
            self.delivered_events += 1;
            if let Some(p) = expected.iter().position(|(e, id)| *e == ev && !w.s[o].an.dgrams[*id].delivered) {
                let (_, id) = expected.remove(p);
                w.s[o].an.dgrams[id].delivered = true;
                continue;
            }
            // not predicted by the model for this poll: find out what it is
            let mut found: Option<usize> = None;
            let mut found_delivered: Option<usize> = None;
            for (id, d) in w.s[o].an.dgrams.iter().enumerate() {
                if let Some(pkt) = &d.pkt {
                    if event_for(pkt, &self.socks[side]).as_ref() == Some(&ev) {
                        if d.delivered {
                            found_delivered = Some(id);
                        } else if found.is_none() {
                            found = Some(id);
                        }
                    }
                }
            }
            if let Some(id) = found {
                let d = &w.s[o].an.dgrams[id];
                if !self.twin_ok(d, o) {
                    return Err(Fail::new("diff:delivered-over-6lowpan-but-not-over-raw-ip", format!("{} - the same datagram was not delivered in the raw-IP twin", ev.brief())));
                }
                self.beyond_model += 1;
                ctx.label("delivered-although-model-did-not-predict-it");
                w.s[o].an.dgrams[id].delivered = true;
                continue;
            }
            if let Some(id) = found_delivered {
                return Err(Fail::new(
                    "ingress:datagram-delivered-twice",
                    format!("{}: datagram #{} of node {} (tag {:?}, {} octets) had already been delivered; no fragment set was duplicated completely", ev.brief(), id, o, w.s[o].an.dgrams[id].tag, w.s[o].an.dgrams[id].size),
                ));
            }
            // corruption / merge: describe the nearest sent datagram
            let mut near = String::from("no datagram of that length was sent");
            for d in &w.s[o].an.dgrams {
                if let Some(pkt) = &d.pkt {
                    if let Some(e2) = event_for(pkt, &self.socks[side]) {
                        if e2.data().len() == ev.data().len() {
                            let n = e2.data().iter().zip(ev.data().iter()).filter(|(a, b)| a != b).count();
                            let at = e2.data().iter().zip(ev.data().iter()).position(|(a, b)| a != b);
                            near = format!("nearest sent datagram (tag {:?}, {} octets): {} data octets differ, first at {:?}; sent event: {}", d.tag, d.size, n, at, e2.brief());
                        }
                    }
                }
            }
            return Err(Fail::new("ingress:delivered-data-matches-no-datagram-sent", format!("node {}: {} - {}", side, ev.brief(), near)));
        }
        if let Some((ev, id)) = expected.first() {
            let d = &w.s[o].an.dgrams[*id];
            if d.delivered {
                return Ok(());
            }
            return Err(Fail::new(
                "ingress:datagram-not-delivered-although-reassembler-limits-respected",
                format!(
                    "node {} should have produced: {} (datagram #{} of node {}, tag {:?}, {} octets in {} frame(s)); every fragment arrived, within {} datagrams in progress, {} disjoint ranges and the reassembly timeout (model refusals so far: slots {}, ranges {}, expired {}), and the raw-IP twin delivered it",
                    side,
                    ev.brief(),
                    id,
                    o,
                    d.tag,
                    d.size,
                    d.nfrags,
                    w.s[side].reasm.max_slots,
                    w.s[side].reasm.max_ranges,
                    w.s[side].reasm.refused_slots,
                    w.s[side].reasm.refused_ranges,
                    w.s[side].reasm.expired
                ),
            ));
        }
        Ok(())
    }
}

impl App for DgramApp {
    fn after_poll(&mut self, w: &mut World, side: usize, ctx: &mut Ctx) -> Result<(), Fail> {
        if !w.lowpan {
            return Ok(());
        }
        for s in 0..2 {
            for id in 0..w.s[s].an.dgrams.len() {
                let d = &w.s[s].an.dgrams[id];
                if d.complete && !d.matched && d.pkt.is_some() {
                    if let Err(f) = self.match_tx(w, s, id) {
                        w.s[s].an.dgrams[id].matched = true;
                        ctx.report(f)?;
                        w.tainted = true;
                    }
                }
            }
        }
        self.check_events(w, side, ctx)
    }
    fn done(&mut self, w: &mut World) -> bool {
        // finished when no socket wants to be polled any more (a datagram may be waiting
        // for the neighbour-solicitation rate limit), or when waiting brings nothing new
        if w.next_deadline().is_none() {
            return true;
        }
        // progress = frames that are not neighbour discovery (a node with a short address is solicited for ever)
        let frames: usize = (0..2).map(|i| w.s[i].an.dgrams.iter().filter(|d| !d.pkt.as_ref().map(|p| p.proto == PROTO_ICMPV6 && (133..=137).contains(&p.payload[0])).unwrap_or(false)).map(|d| d.nfrags).sum::<usize>()).sum();
        if frames != self.last_frames {
            self.last_frames = frames;
            self.idle = 0;
        }
        self.idle += 1;
        self.idle > 4
    }
}

// ------------------------------------------------------------------ raw-IP twin (oracle 2)

/// Send every datagram on its own over Medium::Ip between interfaces with the same
/// addresses and record whether the destination socket (and, for echo, the
/// requester's socket) produced the event that corresponds to what was sent.
pub fn run_twin(cfg: &Cfg, specs: &[SockSpec; 2], sent: &mut [Sent], src: &mut Src, ctx: &mut Ctx) -> Result<(), Fail> {
    let mut w = World::new(cfg, false, 9000);
    let socks = [make_socks(&mut w.s[0].node, &specs[0]), make_socks(&mut w.s[1].node, &specs[1])];
    let mut app = DgramApp { socks: socks.clone(), sent: vec![], delivered_events: 0, raw_checked: 0, beyond_model: 0, idle: 0, last_frames: 0 };
    for s in sent.iter_mut() {
        let mut t = s.clone();
        queue(&mut w, &socks, &mut t);
        if !t.queued {
            continue;
        }
        w.pump(&mut app, src, Faults::NONE, ctx, 20, 1_000_000)?;
        let to = 1 - s.from;
        for ev in read_events(&mut w.s[to].node, &socks[to]) {
            let ok = match (&ev, s.proto) {
                (Ev::Udp { sock, payload, src: es, sport, dst }, PROTO_UDP) => socks[to].udp[*sock].1 == s.dport && *payload == s.payload && *sport == s.sport && *dst == s.dst && s.src.map(|a| a == *es).unwrap_or(cfg.n[s.from].addrs.contains(es)),
                (Ev::Icmp { bytes, src: es }, PROTO_ICMPV6) => bytes.len() == 8 + s.payload.len() && bytes[0] == 128 && bytes[4..6] == s.ident.to_be_bytes() && bytes[6..8] == s.seq.to_be_bytes() && bytes[8..] == s.payload[..] && cfg.n[s.from].addrs.contains(es),
                _ => false,
            };
            if !ok {
                return Err(Fail::new("twin:raw-ip-delivery-differs-from-sent", format!("over Medium::Ip: sent {} but {}", s.brief(), ev.brief())));
            }
            s.twin_rx = true;
        }
        for ev in read_events(&mut w.s[s.from].node, &socks[s.from]) {
            if let (Ev::Icmp { bytes, .. }, PROTO_ICMPV6) = (&ev, s.proto) {
                if bytes.len() == 8 + s.payload.len() && bytes[0] == 129 && bytes[8..] == s.payload[..] {
                    s.twin_reply = true;
                    continue;
                }
            }
            return Err(Fail::new("twin:raw-ip-delivery-differs-from-sent", format!("over Medium::Ip: after {} the sender's sockets produced {}", s.brief(), ev.brief())));
        }
    }
    Ok(())
}

// ------------------------------------------------------------------ final bookkeeping shared by the parts

pub fn finish_case(w: &mut World, app: &mut DgramApp, cfg: &Cfg, quiescent: bool, ctx: &mut Ctx) -> Result<(), Fail> {
    // datagrams that fit RFC 4944 must have been put on the wire
    let a_short_unicast_stuck = matches!(cfg.n[0].ll, Ll::Short(_));
    for s in app.sent.iter() {
        if !s.queued {
            ctx.label("send-refused-by-socket-buffer");
            continue;
        }
        if s.total > 2047 {
            ctx.label(if s.total <= 40 + smoltcp::config::FRAGMENTATION_BUFFER_SIZE { "oversize:2048..frag-buffer" } else { "oversize:beyond-frag-buffer" });
            if s.tx.is_some() {
                return Err(Fail::new("harness:oversize-datagram-decoded", "a datagram longer than 2047 octets was reconstructed from fragments"));
            }
            continue;
        }
        if s.tx.is_none() && !w.tainted && quiescent {
            let stuck_ok = (s.from == 0 && a_short_unicast_stuck || s.from == 1) && s.dst[0] != 0xff;
            if stuck_ok || matches!(cfg.n[1].ll, Ll::Short(_)) && s.dst[0] != 0xff {
                ctx.label("unicast-unresolvable-with-short-address");
                continue;
            }
            return Err(Fail::new("egress:queued-datagram-never-emitted", format!("{} was accepted by the socket but no frame carrying it ever appeared although the interface went idle", s.brief())));
        }
    }
    // coverage: class labels, digest
    let mut any = false;
    for k in 0..app.sent.len() {
        let s = app.sent[k].clone();
        let Some(txid) = s.tx else { continue };
        let d = &w.s[s.from].an.dgrams[txid];
        let pkt = d.pkt.as_ref().unwrap();
        let pname = if s.proto == PROTO_UDP { "udp" } else { "icmp-echo" };
        ctx.label(&format!("emitted:{}", pname));
        ctx.label(&format!("src:{}", addr_class(&pkt.src, cfg.n[s.from].ll)));
        ctx.label(&format!("dst:{}", addr_class(&pkt.dst, cfg.n[1 - s.from].ll)));
        ctx.label(hop_class(s.hop));
        ctx.label(frag_bucket(d.nfrags));
        if s.proto == PROTO_UDP {
            ctx.label(port_class(s.sport, s.dport));
        }
        ctx.label(&format!("iphc:sam{}-dam{}{}", d.modes.sam, d.modes.dam, if d.modes.m { "-mcast" } else { "" }));
        if let Some((_, p)) = d.modes.udp {
            ctx.label(&format!("nhc-udp:p{}", p));
        }
        if d.delivered {
            any = true;
            ctx.label(&format!("delivered:{}", pname));
            ctx.digest.str(pname);
            ctx.digest.str(addr_class(&pkt.src, cfg.n[s.from].ll));
            ctx.digest.str(addr_class(&pkt.dst, cfg.n[1 - s.from].ll));
            ctx.digest.str(if s.proto == PROTO_UDP { port_class(s.sport, s.dport) } else { "-" });
            ctx.digest.str(hop_class(s.hop));
            ctx.digest.u64(d.nfrags as u64);
            ctx.digest.u64(s.total as u64);
        } else if s.twin_rx {
            ctx.label("not-delivered(model-permits)");
        }
        if let Some(r) = s.reply_tx {
            let rd = &w.s[1 - s.from].an.dgrams[r];
            ctx.label("echo-reply-emitted");
            if rd.delivered {
                ctx.label("echo-reply-delivered");
            }
        }
    }
    if any {
        ctx.nontrivial = true;
    }
    for i in 0..2 {
        if w.s[i].an.over125 > 0 {
            ctx.label("frame-126-or-127-octets");
        }
        if w.s[i].reasm.refused_ranges > 0 {
            ctx.label("model:range-limit-hit");
        }
        if w.s[i].reasm.refused_slots > 0 {
            ctx.label("model:slot-limit-hit");
        }
        if w.s[i].reasm.expired > 0 {
            ctx.label("model:reassembly-timeout");
        }
    }
    if w.frames_duplicated > 0 {
        ctx.label("channel:duplicates");
    }
    if w.drains_capped > 0 {
        ctx.label("drain-capped");
        ctx.inconclusive = true;
    }
    ctx.count("frames_delivered", w.frames_delivered);
    ctx.count("socket_events", app.delivered_events);
    ctx.count("raw_socket_datagrams_compared", app.raw_checked);
    Ok(())
}

// ------------------------------------------------------------------ destination / source choice

/// dst class: 0 B link-local, 1 B global, 2 ff02::1, 3 solicited-node of B's link-local,
/// 4 solicited-node of B's global, 5.. other multicast addresses
pub fn dst_addr(class: u64, cfg: &Cfg, to: usize) -> [u8; 16] {
    let b = &cfg.n[to];
    match class {
        0 => b.addrs[0],
        1 => b.addrs[1],
        2 => Ip::v6([0xff02, 0, 0, 0, 0, 0, 0, 1]).bytes().try_into().unwrap(),
        3 => solicited_node(&b.addrs[0]),
        4 => solicited_node(&b.addrs[1]),
        5 => Ip::v6([0xff02, 0, 0, 0, 0, 0, 0, 2]).bytes().try_into().unwrap(),
        6 => Ip::v6([0xff05, 0, 0, 0, 0, 0, 1, 3]).bytes().try_into().unwrap(),
        7 => Ip::v6([0xff0e, 0, 0, 0, 0, 0x12, 0x3456, 0x789a]).bytes().try_into().unwrap(),
        8 => Ip::v6([0xff3e, 0x40, 0xfd00, 0, 0, 0, 0x1234, 0x5678]).bytes().try_into().unwrap(),
        // boundaries between the RFC 6282 multicast forms (8 / 32 / 48 bit / in line): one
        // non-zero octet decides which form is still legal (added after the classes above)
        9 => Ip::v6([0xff15, 0, 0, 0, 0, 0, 0x8000, 0x0001]).bytes().try_into().unwrap(), // octet 12: 48-bit form needed
        10 => Ip::v6([0xff02, 0, 0, 0, 0, 0, 0, 0x0100]).bytes().try_into().unwrap(), // octet 14: ff02 but not the 8-bit form
        11 => Ip::v6([0xff03, 0, 0, 0, 0, 0, 0, 0x0001]).bytes().try_into().unwrap(), // scope 3: not the 8-bit form
        12 => Ip::v6([0xff0e, 0, 0, 0, 0, 0x0001, 0, 0]).bytes().try_into().unwrap(), // octet 11 only: 48-bit form
        _ => Ip::v6([0xff0e, 0, 0, 0, 0, 0x0100, 0, 0x0001]).bytes().try_into().unwrap(), // octet 10: in line only
    }
}
pub const DST_CLASSES: u64 = 13;

/// Unicast is only possible towards a node with an extended address (neighbour
/// discovery cannot carry short addresses in this stack).
pub fn fix_dst_class(class: u64, cfg: &Cfg, to: usize) -> u64 {
    if class <= 1 && matches!(cfg.n[to].ll, Ll::Short(_)) {
        2
    } else {
        class
    }
}

fn payload_len(src: &mut Src, small_only: bool) -> usize {
    if small_only {
        return src.usize(0, 420);
    }
    match src.weighted(&[4, 3, 4, 2, 1, 1, 1, 1]) {
        0 => src.usize(0, 80),
        1 => src.usize(40, 130),
        2 => src.usize(80, 420),
        3 => src.usize(420, 1400),
        4 => src.usize(1985, 1999),
        5 => src.usize(2000, 2012),
        6 => src.usize(2013, 4048),
        _ => src.usize(4041, 4200),
    }
}

pub fn make_payload(seed: u64, len: usize) -> Vec<u8> {
    prf_bytes(seed, 0, len)
}

/// Make the UDP checksum of (src,dst,sport,dport,payload) compute to zero by choosing two payload octets.
fn steer_zero_checksum(s: &mut Sent, src: &[u8; 16]) {
    if s.payload.len() < 2 {
        return;
    }
    s.payload[0] = 0;
    s.payload[1] = 0;
    let (a, d) = (Ip::V6(*src), Ip::V6(s.dst));
    let seg = Udp { sport: s.sport, dport: s.dport, payload: s.payload.clone(), csum: Some(0) }.encode(&a, &d);
    let c = l4_checksum(&a, &d, PROTO_UDP, &seg);
    s.payload[0] = (c >> 8) as u8;
    s.payload[1] = c as u8;
}

// ------------------------------------------------------------------ part: random UDP / echo exchanges

struct Setup {
    cfg: Cfg,
    specs: [SockSpec; 2],
}

fn draw_setup(src: &mut Src) -> (Classes, Setup) {
    let cl = draw_classes(src);
    let cfg = make_cfg(&cl);
    let mut ports = vec![];
    while ports.len() < 4 {
        let p = draw_port(src);
        if !ports.contains(&p) {
            ports.push(p);
        } else {
            ports.push(p.wrapping_add(ports.len() as u16 * 16 + 16).max(1));
        }
    }
    let ident = src.u16();
    let specs = [SockSpec { udp_ports: vec![ports[0], ports[1]], icmp_ident: Some(ident), raw_udp: false }, SockSpec { udp_ports: vec![ports[2], ports[3]], icmp_ident: Some(ident), raw_udp: false }];
    (cl, Setup { cfg, specs })
}

#[allow(clippy::too_many_arguments)]
fn draw_sent(src: &mut Src, su: &Setup, from: usize, proto: u8, sock: usize, hop: u8, seq: u16, small_only: bool) -> Sent {
    let cfg = &su.cfg;
    let to = 1 - from;
    let dclass = fix_dst_class(
        match src.weighted(&[4, 4, 2, 1, 1, 2]) {
            5 => 5 + src.draw(DST_CLASSES - 5),
            c => c as u64,
        },
        cfg,
        to,
    );
    let dst = dst_addr(dclass, cfg, to);
    let srcpin = if proto == PROTO_UDP {
        match src.weighted(&[2, 2, 2]) {
            0 => None,
            1 => Some(cfg.n[from].addrs[0]),
            _ => Some(cfg.n[from].addrs[1]),
        }
    } else {
        None
    };
    let dsock = src.draw(1) as usize;
    let len = payload_len(src, small_only);
    let seed = src.u64();
    let mut s = Sent {
        from,
        proto,
        sock,
        src: srcpin,
        dst,
        sport: su.specs[from].udp_ports[sock],
        dport: su.specs[to].udp_ports[dsock],
        ident: su.specs[from].icmp_ident.unwrap(),
        seq,
        payload: make_payload(seed, len),
        hop,
        total: 48 + len,
        queued: false,
        tx: None,
        reply_tx: None,
        twin_rx: false,
        twin_reply: false,
    };
    if proto == PROTO_UDP && srcpin.is_some() && src.chance(1, 12) {
        let a = srcpin.unwrap();
        steer_zero_checksum(&mut s, &a);
    }
    s
}

fn hello(su: &Setup, target_global: bool) -> Sent {
    // B says something first so that A learns B's link-layer address from the solicitation
    let cfg = &su.cfg;
    Sent {
        from: 1,
        proto: PROTO_UDP,
        sock: 0,
        src: None,
        dst: cfg.n[0].addrs[target_global as usize],
        sport: su.specs[1].udp_ports[0],
        dport: su.specs[0].udp_ports[0],
        ident: 0,
        seq: 0,
        payload: b"hi!".to_vec(),
        hop: 64,
        total: 51,
        queued: false,
        tx: None,
        reply_tx: None,
        twin_rx: false,
        twin_reply: false,
    }
}

pub fn dgram_case(src: &mut Src, ctx: &mut Ctx) -> Result<(), Fail> {
    let (_cl, su) = draw_setup(src);
    let cfg = su.cfg.clone();
    ctx.note(|| describe_cfg(&cfg));
    let faults = Faults { reorder: src.chance(2, 3), dup: src.chance(1, 3), gaps: src.chance(1, 4), backpressure: src.chance(1, 2) };
    let a_short = matches!(cfg.n[0].ll, Ll::Short(_));
    let warm = if a_short { 1 } else { src.weighted(&[3, 1]) };
    ctx.label(if warm == 1 { "warm:B-first" } else { "cold:ndisc-in-flow" });
    ctx.label(&format!("hw:{}->{}", if a_short { "short" } else { "ext" }, if matches!(cfg.n[1].ll, Ll::Short(_)) { "short" } else { "ext" }));
    ctx.label(if cfg.pan.is_some() { "pan:set" } else { "pan:none" });
    if faults.backpressure {
        ctx.label("tx-backpressure");
    }

    // script: bursts of datagrams from A (hop limit per socket and burst)
    let mut sent: Vec<Sent> = vec![];
    let mut bursts: Vec<Vec<usize>> = vec![];
    let hello_global = src.bool();
    if warm == 1 {
        sent.push(hello(&su, hello_global));
        bursts.push(vec![0]);
    }
    let nb = 1 + src.weighted(&[3, 1]);
    let mut seq = 0u16;
    for _ in 0..nb {
        let hops = [draw_hop(src), draw_hop(src), draw_hop(src)];
        let mut b = vec![];
        // mostly 1-3 datagrams back to back; occasionally more, to exhaust the reassembly slots
        let n = 1 + src.weighted(&[10, 6, 4, 1, 1, 1]);
        for _ in 0..n {
            let proto = if src.chance(1, 4) { PROTO_ICMPV6 } else { PROTO_UDP };
            let sock = src.draw(1) as usize;
            let hop = if proto == PROTO_UDP { hops[sock] } else { hops[2] };
            seq = seq.wrapping_add(1 + src.draw(2) as u16);
            let mut s = draw_sent(src, &su, 0, proto, sock, hop, seq, false);
            if a_short && s.dst[0] != 0xff {
                // A can only reach the address B used as the source of its solicitation
                s.dst = cfg.n[1].addrs[hello_global as usize];
            }
            b.push(sent.len());
            sent.push(s);
        }
        bursts.push(b);
    }
    for s in &sent {
        ctx.note(|| format!("script: node {} sends {}", s.from, s.brief()));
    }

    run_twin(&cfg, &su.specs, &mut sent, src, ctx)?;

    let mut w = World::new(&cfg, true, cfg.mtu);
    let socks = [make_socks(&mut w.s[0].node, &su.specs[0]), make_socks(&mut w.s[1].node, &su.specs[1])];
    let mut app = DgramApp { socks: socks.clone(), sent, delivered_events: 0, raw_checked: 0, beyond_model: 0, idle: 0, last_frames: 0 };
    let mut quiescent = true;
    for b in bursts {
        for k in b {
            let mut s = app.sent[k].clone();
            queue(&mut w, &socks, &mut s);
            app.sent[k] = s;
        }
        let ok = w.pump(&mut app, src, faults, ctx, 400, w.now_ms + 900_000)?;
        if !ok {
            ctx.label("pump:not-quiescent");
            quiescent = false;
        }
        w.now_ms += *src.pick(&[1i64, 1, 5, 1_000, 70_000]);
    }
    finish_case(&mut w, &mut app, &cfg, quiescent, ctx)
}

// ------------------------------------------------------------------ part: explicit permutations (replay form of the exhaustive phase)

/// Fixed-position draws: [proto, hwA, hwB, llA, llB, gA, gB, srcpin, dstclass, portclass,
/// hopclass, seed, len] -> configuration, socket specification and the one datagram.
fn perm_setup(src: &mut Src) -> (Cfg, Setup, Sent) {
    let proto = if src.draw(1) == 1 { PROTO_ICMPV6 } else { PROTO_UDP };
    let hw = [src.draw(1), src.draw(1)];
    let llc = [src.draw(3), src.draw(3)];
    let gc = [src.draw(2), src.draw(2)];
    let srcpin = src.draw(2);
    let dclass = src.draw(DST_CLASSES);
    let pclass = src.draw(4);
    let hclass = src.draw(3);
    let seed = src.draw(0xffff);
    let len = src.draw(420) as usize;
    let cl = Classes { hw, llc, gc, prefix: seed & 1, pan: Some(0xabcd), seed: mixh(seed, 55), mtu: 1280 };
    let cfg = make_cfg(&cl);
    let (sp, dp) = match pclass {
        0 => (0xf0b0 + (seed & 15) as u16, 0xf0b0 + ((seed >> 4) & 15) as u16),
        1 => (0xf000 + (seed & 255) as u16, 5683),
        2 => (5683, 0xf000 + (seed & 255) as u16),
        3 => (0xf011, 0xf0c2),
        _ => (1024 + (seed & 1023) as u16, 40000),
    };
    let su = Setup { cfg: cfg.clone(), specs: [SockSpec { udp_ports: vec![sp, sp ^ 0x100], icmp_ident: Some(seed as u16), raw_udp: false }, SockSpec { udp_ports: vec![dp, dp ^ 0x200], icmp_ident: Some(seed as u16), raw_udp: false }] };
    let a_short = matches!(cfg.n[0].ll, Ll::Short(_));
    let mut dclass = fix_dst_class(dclass, &cfg, 1);
    if a_short && dclass <= 1 {
        dclass = 2;
    }
    let hop = [64u8, 1, 255, 37][hclass as usize];
    let s = Sent {
        from: 0,
        proto,
        sock: 0,
        src: if proto == PROTO_UDP && srcpin > 0 { Some(cfg.n[0].addrs[srcpin as usize - 1]) } else { None },
        dst: dst_addr(dclass, &cfg, 1),
        sport: sp,
        dport: dp,
        ident: seed as u16,
        seq: (seed >> 3) as u16,
        payload: make_payload(seed, len),
        hop,
        total: 48 + len,
        queued: false,
        tx: None,
        reply_tx: None,
        twin_rx: false,
        twin_reply: false,
    };
    (cfg, su, s)
}

/// Replay form of the exhaustive phase: perm_setup draws, then [perm, dup, chunking].
pub fn perm_case(src: &mut Src, ctx: &mut Ctx) -> Result<(), Fail> {
    let (cfg, su, s) = perm_setup(src);
    let perm = src.draw(23);
    let dup = src.draw(20);
    let chunking = src.draw(1);
    ctx.note(|| describe_cfg(&cfg));
    ctx.note(|| format!("script: {}", s.brief()));
    let mut sent = vec![s];
    run_twin(&cfg, &su.specs, &mut sent, src, ctx)?;
    let mut w = World::new(&cfg, true, cfg.mtu);
    let socks = [make_socks(&mut w.s[0].node, &su.specs[0]), make_socks(&mut w.s[1].node, &su.specs[1])];
    let mut app = DgramApp { socks: socks.clone(), sent, delivered_events: 0, raw_checked: 0, beyond_model: 0, idle: 0, last_frames: 0 };
    let mut s0 = app.sent[0].clone();
    queue(&mut w, &socks, &mut s0);
    app.sent[0] = s0;
    let mut none = vec![];
    w.drain(0, &mut none, &mut app, ctx)?;
    let infos: Vec<FrameInfo> = w.s[0].outbox.iter().map(|x| x.1.clone()).collect();
    let n = infos.len();
    let plan = if n >= 1 && n <= 4 && infos.iter().all(|f| f.frag.is_some() || n == 1) {
        let seq = explicit_sequence(n, perm % factorial(n), dup % (n as u64 * (n as u64 + 1) + 1));
        let seq = if n == 1 { vec![0] } else { seq };
        ctx.label(&format!("explicit-sequence:n{}", n));
        if seq.len() > n {
            ctx.label("explicit-sequence:with-duplicate");
        }
        if chunking == 0 {
            vec![Chunk { gap_ms: 0, frames: seq }]
        } else {
            seq.into_iter().map(|i| Chunk { gap_ms: 1, frames: vec![i] }).collect()
        }
    } else {
        ctx.label("explicit-sequence:fallback-random");
        draw_plan(src, &infos, Faults { reorder: true, dup: true, gaps: false, backpressure: false })
    };
    if n > 0 {
        w.deliver(0, plan, &mut app, ctx)?;
    }
    let quiescent = w.pump(&mut app, src, Faults::NONE, ctx, 100, 100_000)?;
    // within these limits the datagram must have been delivered exactly once
    if n >= 1 && n <= 4 && !w.tainted {
        let s = &app.sent[0];
        if let Some(tx) = s.tx {
            if s.twin_rx && !w.s[0].an.dgrams[tx].delivered {
                return Err(Fail::new("ingress:datagram-not-delivered-although-reassembler-limits-respected", format!("{} in {} fragment(s), permutation {} duplicate {}: not delivered", s.brief(), n, perm % factorial(n), dup)));
            }
        }
    }
    finish_case(&mut w, &mut app, &cfg, quiescent, ctx)
}

/// Smallest payload length for which the scenario needs exactly `n` frames.
fn len_for_frames(prefix: &[u64], n: usize) -> Option<usize> {
    let frames = |len: usize| -> usize {
        let mut tape = prefix.to_vec();
        tape.push(len as u64);
        let mut src = Src::replay(&tape);
        let (cfg, su, mut s) = perm_setup(&mut src);
        let specs = su.specs.clone();
        let mut w = World::new(&cfg, true, 1280);
        let socks = [make_socks(&mut w.s[0].node, &specs[0]), make_socks(&mut w.s[1].node, &specs[1])];
        let mut app = DgramApp { socks: socks.clone(), sent: vec![], delivered_events: 0, raw_checked: 0, beyond_model: 0, idle: 0, last_frames: 0 };
        queue(&mut w, &socks, &mut s);
        let known = std::sync::Arc::new(vec!["*".to_string()]);
        let mut ctx = Ctx::new(false, known, false);
        let mut none = vec![];
        let _ = w.drain(0, &mut none, &mut app, &mut ctx);
        w.s[0].outbox.len()
    };
    let (mut lo, mut hi) = (0usize, 420usize);
    if frames(hi) < n {
        return None;
    }
    while lo < hi {
        let mid = (lo + hi) / 2;
        if frames(mid) >= n {
            hi = mid;
        } else {
            lo = mid + 1;
        }
    }
    if frames(lo) == n {
        Some(lo)
    } else {
        None
    }
}

pub fn perm_phase(env: &RunEnv) -> PhaseResult {
    // scenario prefixes: [proto, hwA, hwB, llA, llB, gA, gB, srcpin, dstclass, portclass, hopclass, seed]
    let mut scenarios: Vec<Vec<u64>> = vec![];
    let thorough = env.tier == Tier::Thorough;
    let mut k = 0u64;
    for proto in 0..2u64 {
        for dclass in [0u64, 1, 2, 3, 7] {
            for llc in 0..4u64 {
                for srcpin in 0..3u64 {
                    k += 1;
                    // quick: a slice of the product chosen by a fixed stride; thorough: all of it
                    if !thorough && (k + env.seed) % 3 != 0 {
                        continue;
                    }
                    let hwa = (k / 2) % 5 / 4; // mostly extended
                    scenarios.push(vec![proto, hwa, 0, llc, (llc + k) % 4, k % 3, (k / 3) % 3, if proto == 1 { 0 } else { srcpin }, dclass, k % 5, (k / 5) % 4, (k * 2654435761) & 0xffff]);
                }
            }
        }
    }
    let mut evaluations = 0u64;
    let mut nontrivial = 0u64;
    let mut failures: Vec<(String, Vec<u64>, Fail)> = vec![];
    let mut sizes = vec![];
    'outer: for sc in &scenarios {
        for n in 2..=4usize {
            let Some(len) = len_for_frames(sc, n) else { continue };
            sizes.push((n, len));
            for perm in 0..factorial(n) {
                for dup in 0..=(n as u64 * (n as u64 + 1)) {
                    for chunking in 0..2u64 {
                        let mut tape = sc.clone();
                        tape.extend_from_slice(&[len as u64, perm, dup, chunking]);
                        let mut ctx = Ctx::new(false, env.known_open.clone(), false);
                        let mut s = Src::replay(&tape);
                        let r = guarded(|| perm_case(&mut s, &mut ctx));
                        evaluations += 1;
                        if ctx.nontrivial {
                            nontrivial += 1;
                        }
                        let fail = match r {
                            Ok(Ok(())) => None,
                            Ok(Err(f)) => Some(f),
                            Err(p) if panic_in_smoltcp(&p) => Some(Fail::new(panic_key(&p), format!("smoltcp panicked at {}:{}: {}", p.file, p.line, p.msg))),
                            Err(p) => panic!("harness panic in perm phase at {}:{}: {}", p.file, p.line, p.msg),
                        };
                        if let Some(f) = fail {
                            if !failures.iter().any(|x| x.2.key == f.key) {
                                failures.push(("perm".to_string(), tape, f));
                            }
                            if failures.len() >= 6 {
                                break 'outer;
                            }
                        }
                    }
                }
            }
        }
    }
    PhaseResult {
        name: "all permutations x single duplications of 2..4 fragments".into(),
        evaluations,
        nontrivial,
        exhaustive: failures.is_empty(),
        failures,
        extra: json!({ "scenarios": scenarios.len(), "sequences_per_n": {"2": 2 * 7 * 2, "3": 6 * 13 * 2, "4": 24 * 21 * 2}, "payload_lengths_found": sizes.len() }),
        samples: vec![json!({ "phase": "perm", "example_scenario_prefix": scenarios.first(), "example_(n,len)": sizes.first() })],
    }
}
