//! C10 - every transmitted frame is well-formed, fits the MTU and has a legal source.
//!
//! The property quantifies over "every frame emitted in every execution of
//! every other scenario", so this check re-runs the case functions of all the
//! other simulation-based checks with a strict independent validator attached
//! to the simulated device (vkit::indep::validate, switched on per thread in
//! vkit::sim). The inner check's own verdict is ignored here; only what the
//! validator says about the frames handed to TxToken::consume counts.

use std::cell::RefCell;
use std::collections::BTreeMap;
use std::sync::OnceLock;
use vkit::indep::validate::{validate_ip, FrameSummary, TxContext, Violation};
use vkit::runner::{CaseFn, Fail, Part, Prop};
use vkit::sim::{set_lowpan_tx_hook, set_validate_tx, take_tx_chains, take_tx_violations};
use vkit::{Ctx, Src};

#[allow(dead_code)]
#[path = "c20_lowpan.rs"]
mod lowpan;
use lowpan::{decode_dispatch, decode_mac, decompress, fill_udp_checksum, Ctxs, Ll, Lp};

// ------------------------------------------------------------------ IEEE 802.15.4 contents
//
// The frame validator of vkit only knows the size rule for this medium. Here every
// emitted frame is decoded with the independent 802.15.4 / RFC 4944 / RFC 6282 codec,
// fragments are put back together, and the reconstructed IPv6 datagram goes through the
// same `validate_ip` as on the other media (lengths, extension headers, checksums, source).

struct Partial {
    bytes: Vec<u8>,
    have: Vec<bool>,
    udp_fix: Option<usize>,
}

thread_local! {
    /// fragmented datagrams under way, by (sender link-layer address, tag, datagram_size)
    static PARTIAL: RefCell<BTreeMap<(Ll, u16, usize), Partial>> = const { RefCell::new(BTreeMap::new()) };
}

fn lv(key: &str, msg: String) -> Violation {
    (format!("ieee802154:{}", key), msg)
}

/// IPHC header uses a context (CID, SAC or DAC set).
fn uses_context(iphc: &[u8]) -> bool {
    iphc.len() >= 2 && (iphc[1] & 0x80 != 0 || iphc[1] & 0x40 != 0 || iphc[1] & 0x04 != 0)
}

fn finish(cx: &TxContext, mut bytes: Vec<u8>, udp_fix: Option<usize>, frag: bool) -> Result<Option<FrameSummary>, Violation> {
    if let Some(u) = udp_fix {
        if u + 8 <= bytes.len() {
            fill_udp_checksum(&mut bytes, u);
        }
    }
    let mut s = validate_ip(cx, &bytes).map_err(|(k, m)| (format!("ieee802154:{}", k), format!("{} (datagram reconstructed from {} 6LoWPAN frame(s): {:02x?})", m, if frag { "several" } else { "one" }, &bytes[..bytes.len().min(80)])))?;
    s.chain = format!("6lowpan{}/{}", if frag { "-frag" } else { "" }, s.chain);
    s.len = bytes.len();
    Ok(Some(s))
}

fn lowpan_hook(cx: &TxContext, frame: &[u8]) -> Result<Option<FrameSummary>, Violation> {
    let (mac, hl) = decode_mac(frame).map_err(|e| lv("mac-header-undecodable", format!("{} in {:02x?}", e, &frame[..frame.len().min(32)])))?;
    if mac.ftype != 1 {
        return Err(lv("not-a-data-frame", format!("frame type {} emitted by the interface", mac.ftype)));
    }
    if mac.security || mac.reserved != 0 {
        return Err(lv("mac-header-unexpected", format!("security / reserved bits set in a frame the interface built: {:?}", mac)));
    }
    if mac.src == Ll::None {
        return Err(lv("mac-source-absent", "data frame without a source address".into()));
    }
    let payload = &frame[hl..];
    let mut ctxs = Ctxs::default();
    if let Some(list) = &cx.lowpan_ctxs {
        for (i, c) in list.iter().enumerate().take(16) {
            ctxs.0[i] = Some(*c);
        }
    }
    let lp = decode_dispatch(payload).map_err(|e| lv("dispatch-unknown", format!("{} ({:02x?})", e, &payload[..payload.len().min(12)])))?;
    match lp {
        Lp::Iphc(p) => {
            if uses_context(p) && cx.lowpan_ctxs.is_none() {
                return Ok(None);
            }
            let d = decompress(p, mac.src, mac.dst, &ctxs).map_err(|e| lv("iphc-undecodable", format!("{} in {:02x?}", e, &p[..p.len().min(48)])))?;
            let fix = if d.udp_csum_elided { d.udp_at.map(|u| 40 + u) } else { None };
            finish(cx, d.build(None), fix, false)
        }
        Lp::Frag1 { size, tag, rest } => {
            if uses_context(rest) && cx.lowpan_ctxs.is_none() {
                return Ok(None);
            }
            let d = decompress(rest, mac.src, mac.dst, &ctxs).map_err(|e| lv("iphc-undecodable", format!("{} in FRAG1 {:02x?}", e, &rest[..rest.len().min(48)])))?;
            let unc = d.uncompressed_len();
            if unc > size {
                return Err(lv("frag-beyond-datagram-size", format!("FRAG1 stands for {} uncompressed octets but datagram_size is {}", unc, size)));
            }
            if unc % 8 != 0 && unc != size {
                return Err(lv("frag1-length-not-multiple-of-8", format!("FRAG1 (tag {}, datagram_size {}) stands for {} uncompressed octets", tag, size, unc)));
            }
            let b = d.build(Some(size));
            let mut part = Partial { bytes: vec![0; size], have: vec![false; size], udp_fix: if d.udp_csum_elided { d.udp_at.map(|u| 40 + u) } else { None } };
            part.bytes[..b.len()].copy_from_slice(&b);
            for h in part.have[..b.len()].iter_mut() {
                *h = true;
            }
            if part.have.iter().all(|h| *h) {
                return finish(cx, part.bytes, part.udp_fix, true);
            }
            // a FRAG1 with the key of a datagram still under way replaces it (the interface
            // abandoned the earlier one; whether it may is C20's / C09's question, not C10's)
            PARTIAL.with(|m| m.borrow_mut().insert((mac.src, tag, size), part));
            Ok(None)
        }
        Lp::FragN { size, tag, offset, rest } => {
            if offset + rest.len() > size {
                return Err(lv("frag-beyond-datagram-size", format!("FRAGN offset {} + {} octets exceeds datagram_size {}", offset, rest.len(), size)));
            }
            if rest.is_empty() {
                return Err(lv("frag-empty", format!("FRAGN at offset {} carries no data", offset)));
            }
            if rest.len() % 8 != 0 && offset + rest.len() != size {
                return Err(lv("fragn-length-not-multiple-of-8", format!("FRAGN at offset {} carries {} octets and is not the last fragment (datagram_size {})", offset, rest.len(), size)));
            }
            let key = (mac.src, tag, size);
            let done = PARTIAL.with(|m| {
                let mut m = m.borrow_mut();
                // no FRAG1 on record (sent before validation started, or not judged): no verdict
                let part = m.get_mut(&key)?;
                for (i, x) in rest.iter().enumerate() {
                    part.bytes[offset + i] = *x;
                    part.have[offset + i] = true;
                }
                if part.have.iter().all(|h| *h) {
                    m.remove(&key)
                } else {
                    None
                }
            });
            match done {
                Some(part) => finish(cx, part.bytes, part.udp_fix, true),
                None => Ok(None),
            }
        }
    }
}

fn scenarios() -> &'static Vec<(String, CaseFn)> {
    static T: OnceLock<Vec<(String, CaseFn)>> = OnceLock::new();
    T.get_or_init(|| {
        #[allow(unused_mut)]
        let mut props: Vec<Prop> = vec![];
        #[cfg(feature = "c01")]
        props.push(super::c01::prop());
        #[cfg(feature = "c02")]
        props.push(super::c02::prop());
        #[cfg(feature = "c04")]
        props.push(super::c04::prop());
        #[cfg(feature = "c05")]
        props.push(super::c05::prop());
        #[cfg(feature = "c09")]
        props.push(super::c09::prop());
        #[cfg(feature = "c11")]
        props.push(super::c11::prop());
        #[cfg(feature = "c12")]
        props.push(super::c12::prop());
        #[cfg(feature = "c13")]
        props.push(super::c13::prop());
        #[cfg(feature = "c17")]
        props.push(super::c17::prop());
        #[cfg(feature = "c18")]
        props.push(super::c18::prop());
        #[cfg(feature = "c19")]
        props.push(super::c19::prop());
        // later additions go last so that saved tapes (first draw = scenario index) stay valid
        #[cfg(feature = "c03")]
        props.push(super::c03::prop());
        #[cfg(feature = "c16")]
        props.push(super::c16::prop());
        #[cfg(feature = "c20")]
        props.push(super::c20::prop());
        let mut t = vec![];
        for p in props {
            for part in p.parts {
                if part.quick == 0 {
                    continue;
                }
                t.push((format!("{}/{}", p.id, part.name), part.case));
            }
        }
        // parts added to a check after tapes had been saved go last, in the order listed here
        // (the first draw of a C10 tape is an index into this table)
        const LATE: &[&str] = &["C17/deep", "C02/reuse"];
        for name in LATE {
            if let Some(i) = t.iter().position(|(n, _)| n == name) {
                let e = t.remove(i);
                t.push(e);
            }
        }
        t
    })
}

fn case(src: &mut Src, ctx: &mut Ctx) -> Result<(), Fail> {
    let table = scenarios();
    let which = src.usize(0, table.len() - 1);
    let (name, inner) = &table[which];
    ctx.note(|| format!("scenario {}", name));
    set_validate_tx(true);
    PARTIAL.with(|m| m.borrow_mut().clear());
    set_lowpan_tx_hook(Some(lowpan_hook));
    // the inner property's verdict is not ours to report
    let mut inner_ctx = Ctx::new(ctx.verbose, std::sync::Arc::new(vec!["*".to_string()]), false);
    let r = vkit::runner::guarded(|| inner(src, &mut inner_ctx));
    let violations = take_tx_violations();
    let chains = take_tx_chains();
    set_validate_tx(false);
    set_lowpan_tx_hook(None);
    if ctx.verbose {
        for d in inner_ctx.desc.iter().take(300) {
            ctx.desc.push(d.clone());
        }
    }
    let mut frames = 0u64;
    for (c, n) in &chains {
        frames += n;
        ctx.label(&format!("frame:{}", c));
        ctx.digest.str(c);
    }
    ctx.count("frames_validated", frames);
    ctx.count(&format!("frames:{}", name), frames);
    ctx.digest.str(name);
    ctx.digest.u64(frames);
    if frames > 0 {
        ctx.nontrivial = true;
    }
    if let Err(p) = r {
        if vkit::runner::panic_in_smoltcp(&p) {
            return Err(Fail::new(vkit::runner::panic_key(&p), format!("smoltcp panicked at {}:{}: {} (scenario {})", p.file, p.line, p.msg, name)));
        }
        // a harness panic inside the borrowed scenario: not a verdict about frames
        ctx.label("inner-harness-panic");
        ctx.inconclusive = true;
    }
    if let Some((k, m)) = violations.into_iter().next() {
        return Err(Fail::new(format!("tx:{}", k), format!("{} (scenario {})", m, name)));
    }
    Ok(())
}

pub fn prop() -> Prop {
    Prop {
        id: "C10",
        parts: vec![Part { name: "all_scenarios", case, quick: 60_000, thorough: 3_000_000 }],
        phases: vec![],
        smoltcp_panic_is_violation: true,
        rule: "each case picks one case function of the other simulation-based checks (TCP worlds under faults, scripted TCP peers, datagram sockets, address-class table, IPv4 fragmentation, DHCP, DNS, neighbour discovery, poll_at scenarios, 6LoWPAN, frame fuzzing - whatever is built into this binary) and runs it with an independent strict validator attached to every simulated device: frame <= device MTU; IEEE 802.15.4 data frame header, 6LoWPAN dispatch / IPHC / NHC / FRAG1 / FRAGN decodable, fragment sizes and offsets consistent, reconstructed datagram validated as below; Ethernet source = own MAC and known ethertype; ARP fields; IPv4 version/IHL/total length = frame payload/header checksum/fragment offsets and flags; IPv6 payload length, extension chain and TLV padding; ICMP checksums, unused fields, error size limits; NDISC hop limit 255, reserved fields and option units; MLD hop limit 1, router alert and record lengths; IGMP TTL and checksum; UDP length and checksum (never 0 over IPv6); TCP data offset, option list, ports, checksum; DHCP cookie and end option; DNS question section; IP source = an interface address at emission time (unspecified only for DHCP client, NS/RS and MLD), never broadcast/multicast (raw-socket protocols 253/254 exempt); non-trivial = at least one frame validated; distinct by digest of (scenario, protocol chains, frame count)",
        assumptions: vec![
            "independent decoders in vkit::indep (no smoltcp::wire code)",
            "source ownership is judged against every address the interface held at the start of any poll so far or holds when the emitting poll has ended (a socket the application bound keeps its source after SLAAC/DHCP removed the address; an address acquired during a poll may be used in that poll); scenarios that poll the interface directly are validated without the source-ownership rule",
            "802.15.4 frames are decoded with the independent 802.15.4 / RFC 4944 / RFC 6282 codec of vcheck/src/c20_lowpan.rs, fragments reassembled and the reconstructed IPv6 datagram validated like on the other media; frames compressed with a 6LoWPAN context are judged only when the scenario polls through Node::poll (contexts snapshotted), FRAGN frames without a FRAG1 on record are not judged",
            "the borrowed scenario's own verdict is ignored",
        ],
    }
}
