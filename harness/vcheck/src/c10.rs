//! C10 - every transmitted frame is well-formed, fits the MTU and has a legal source.
//!
//! The property quantifies over "every frame emitted in every execution of
//! every other scenario", so this check re-runs the case functions of all the
//! other simulation-based checks with a strict independent validator attached
//! to the simulated device (vkit::indep::validate, switched on per thread in
//! vkit::sim). The inner check's own verdict is ignored here; only what the
//! validator says about the frames handed to TxToken::consume counts.

use std::sync::OnceLock;
use vkit::runner::{CaseFn, Fail, Part, Prop};
use vkit::sim::{set_validate_tx, take_tx_chains, take_tx_violations};
use vkit::{Ctx, Src};

fn scenarios() -> &'static Vec<(String, CaseFn)> {
    static T: OnceLock<Vec<(String, CaseFn)>> = OnceLock::new();
    T.get_or_init(|| {
        #[allow(unused_mut)]
        let mut props: Vec<Prop> = vec![];
        #[cfg(feature = "c01")]
        props.push(super::c01::prop());
        #[cfg(feature = "c02")]
        props.push(super::c02::prop());
        #[cfg(feature = "c04")]
        props.push(super::c04::prop());
        #[cfg(feature = "c05")]
        props.push(super::c05::prop());
        #[cfg(feature = "c09")]
        props.push(super::c09::prop());
        #[cfg(feature = "c11")]
        props.push(super::c11::prop());
        #[cfg(feature = "c12")]
        props.push(super::c12::prop());
        #[cfg(feature = "c13")]
        props.push(super::c13::prop());
        #[cfg(feature = "c17")]
        props.push(super::c17::prop());
        #[cfg(feature = "c18")]
        props.push(super::c18::prop());
        #[cfg(feature = "c19")]
        props.push(super::c19::prop());
        // later additions go last so that saved tapes (first draw = scenario index) stay valid
        #[cfg(feature = "c03")]
        props.push(super::c03::prop());
        #[cfg(feature = "c16")]
        props.push(super::c16::prop());
        #[cfg(feature = "c20")]
        props.push(super::c20::prop());
        let mut t = vec![];
        for p in props {
            for part in p.parts {
                if part.quick == 0 {
                    continue;
                }
                t.push((format!("{}/{}", p.id, part.name), part.case));
            }
        }
        t
    })
}

fn case(src: &mut Src, ctx: &mut Ctx) -> Result<(), Fail> {
    let table = scenarios();
    let which = src.usize(0, table.len() - 1);
    let (name, inner) = &table[which];
    ctx.note(|| format!("scenario {}", name));
    set_validate_tx(true);
    // the inner property's verdict is not ours to report
    let mut inner_ctx = Ctx::new(ctx.verbose, std::sync::Arc::new(vec!["*".to_string()]), false);
    let r = vkit::runner::guarded(|| inner(src, &mut inner_ctx));
    let violations = take_tx_violations();
    let chains = take_tx_chains();
    set_validate_tx(false);
    if ctx.verbose {
        for d in inner_ctx.desc.iter().take(300) {
            ctx.desc.push(d.clone());
        }
    }
    let mut frames = 0u64;
    for (c, n) in &chains {
        frames += n;
        ctx.label(&format!("frame:{}", c));
        ctx.digest.str(c);
    }
    ctx.count("frames_validated", frames);
    ctx.count(&format!("frames:{}", name), frames);
    ctx.digest.str(name);
    ctx.digest.u64(frames);
    if frames > 0 {
        ctx.nontrivial = true;
    }
    if let Err(p) = r {
        if vkit::runner::panic_in_smoltcp(&p) {
            return Err(Fail::new(vkit::runner::panic_key(&p), format!("smoltcp panicked at {}:{}: {} (scenario {})", p.file, p.line, p.msg, name)));
        }
        // a harness panic inside the borrowed scenario: not a verdict about frames
        ctx.label("inner-harness-panic");
        ctx.inconclusive = true;
    }
    if let Some((k, m)) = violations.into_iter().next() {
        return Err(Fail::new(format!("tx:{}", k), format!("{} (scenario {})", m, name)));
    }
    Ok(())
}

pub fn prop() -> Prop {
    Prop {
        id: "C10",
        parts: vec![Part { name: "all_scenarios", case, quick: 60_000, thorough: 3_000_000 }],
        phases: vec![],
        smoltcp_panic_is_violation: true,
        rule: "each case picks one case function of the other simulation-based checks (TCP worlds under faults, scripted TCP peers, datagram sockets, address-class table, IPv4 fragmentation, DHCP, DNS, neighbour discovery, poll_at scenarios, 6LoWPAN, frame fuzzing - whatever is built into this binary) and runs it with an independent strict validator attached to every simulated device: frame <= device MTU; Ethernet source = own MAC and known ethertype; ARP fields; IPv4 version/IHL/total length = frame payload/header checksum/fragment offsets and flags; IPv6 payload length, extension chain and TLV padding; ICMP checksums, unused fields, error size limits; NDISC hop limit 255, reserved fields and option units; MLD hop limit 1, router alert and record lengths; IGMP TTL and checksum; UDP length and checksum (never 0 over IPv6); TCP data offset, option list, ports, checksum; DHCP cookie and end option; DNS question section; IP source = an interface address at emission time (unspecified only for DHCP client, NS/RS and MLD), never broadcast/multicast (raw-socket protocols 253/254 exempt); non-trivial = at least one frame validated; distinct by digest of (scenario, protocol chains, frame count)",
        assumptions: vec![
            "independent decoders in vkit::indep (no smoltcp::wire code)",
            "own addresses are snapshotted at the start of each Node::poll; scenarios that poll the interface directly are validated without the source-ownership rule",
            "802.15.4 frames are only size-checked here; their 6LoWPAN contents are decoded independently by the C20 check",
            "the borrowed scenario's own verdict is ignored",
        ],
    }
}
