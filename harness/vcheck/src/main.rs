//! vcheck <Cxx> <quick|thorough> | vcheck <Cxx> --replay <file>
use vkit::runner::{replay_cmd, run_prop, Prop, Tier};

mod c14;
mod c15;

fn props() -> Vec<Prop> {
    vec![c14::prop(), c15::prop()]
}

fn main() {
    let args: Vec<String> = std::env::args().collect();
    if args.len() < 3 {
        eprintln!("usage: vcheck <Cxx> <quick|thorough> | vcheck <Cxx> --replay <file>");
        std::process::exit(2);
    }
    let id = args[1].to_uppercase();
    let Some(prop) = props().into_iter().find(|p| p.id == id) else {
        eprintln!("unknown property {}", id);
        std::process::exit(2);
    };
    let seed: u64 = std::env::var("VERIF_SEED").ok().and_then(|s| s.parse().ok()).unwrap_or(1);
    let code = match args[2].as_str() {
        "--replay" => {
            let Some(path) = args.get(3) else {
                eprintln!("--replay needs a file");
                std::process::exit(2);
            };
            replay_cmd(&prop, path)
        }
        "quick" => run_prop(&prop, Tier::Quick, seed).exit_code,
        "thorough" => run_prop(&prop, Tier::Thorough, seed).exit_code,
        other => {
            eprintln!("unknown mode {}", other);
            2
        }
    };
    std::process::exit(code);
}
