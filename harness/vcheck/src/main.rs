//! vcheck <Cxx> <quick|thorough> | vcheck <Cxx> --replay <file>
//!
//! Each property lives in its own module behind a cargo feature of the same
//! name so that a module under construction cannot break the others.
use vkit::runner::{replay_cmd, run_prop, Prop, Tier};

#[cfg(feature = "c01")]
mod c01;
#[cfg(feature = "c02")]
mod c02;
#[cfg(feature = "c03")]
mod c03;
#[cfg(feature = "c04")]
mod c04;
#[cfg(feature = "c05")]
mod c05;
#[cfg(feature = "c06")]
mod c06;
#[cfg(feature = "c07")]
mod c07;
#[cfg(feature = "c08")]
mod c08;
#[cfg(feature = "c09")]
mod c09;
#[cfg(feature = "c10")]
mod c10;
#[cfg(feature = "c11")]
mod c11;
#[cfg(feature = "c12")]
mod c12;
#[cfg(feature = "c13")]
mod c13;
#[cfg(feature = "c14")]
mod c14;
#[cfg(feature = "c15")]
mod c15;
#[cfg(feature = "c16")]
mod c16;
#[cfg(feature = "c17")]
mod c17;
#[cfg(feature = "c18")]
mod c18;
#[cfg(feature = "c19")]
mod c19;
#[cfg(feature = "c20")]
mod c20;

fn props() -> Vec<Prop> {
    #[allow(unused_mut)]
    let mut v: Vec<Prop> = vec![];
    #[cfg(feature = "c01")]
    v.push(c01::prop());
    #[cfg(feature = "c02")]
    v.push(c02::prop());
    #[cfg(feature = "c03")]
    v.push(c03::prop());
    #[cfg(feature = "c04")]
    v.push(c04::prop());
    #[cfg(feature = "c05")]
    v.push(c05::prop());
    #[cfg(feature = "c06")]
    v.push(c06::prop());
    #[cfg(feature = "c07")]
    v.push(c07::prop());
    #[cfg(feature = "c08")]
    v.push(c08::prop());
    #[cfg(feature = "c09")]
    v.push(c09::prop());
    #[cfg(feature = "c10")]
    v.push(c10::prop());
    #[cfg(feature = "c11")]
    v.push(c11::prop());
    #[cfg(feature = "c12")]
    v.push(c12::prop());
    #[cfg(feature = "c13")]
    v.push(c13::prop());
    #[cfg(feature = "c14")]
    v.push(c14::prop());
    #[cfg(feature = "c15")]
    v.push(c15::prop());
    #[cfg(feature = "c16")]
    v.push(c16::prop());
    #[cfg(feature = "c17")]
    v.push(c17::prop());
    #[cfg(feature = "c18")]
    v.push(c18::prop());
    #[cfg(feature = "c19")]
    v.push(c19::prop());
    #[cfg(feature = "c20")]
    v.push(c20::prop());
    v
}

fn main() {
    let args: Vec<String> = std::env::args().collect();
    if args.len() < 3 {
        eprintln!("usage: vcheck <Cxx> <quick|thorough> | vcheck <Cxx> --replay <file>");
        std::process::exit(2);
    }
    let id = args[1].to_uppercase();
    let Some(prop) = props().into_iter().find(|p| p.id == id) else {
        eprintln!("unknown property {} (not built into this binary)", id);
        std::process::exit(2);
    };
    let seed: u64 = std::env::var("VERIF_SEED").ok().and_then(|s| s.parse().ok()).unwrap_or(1);
    let code = match args[2].as_str() {
        "--replay" => {
            let Some(path) = args.get(3) else {
                eprintln!("--replay needs a file");
                std::process::exit(2);
            };
            replay_cmd(&prop, path)
        }
        // seed corpus of the coverage-guided companion targets in /verif/fuzz
        "--fuzz-seeds" => {
            let Some(dir) = args.get(3) else {
                eprintln!("--fuzz-seeds needs a directory");
                std::process::exit(2);
            };
            let _ = std::fs::create_dir_all(dir);
            vkit::runner::install_panic_hook();
            vkit::runner::set_quiet(true);
            let n: usize = match id.as_str() {
                #[cfg(feature = "c03")]
                "C03" => c03::fuzz_seeds(dir, 60, seed),
                #[cfg(feature = "c07")]
                "C07" => c07::fuzz_seeds(dir),
                _ => {
                    eprintln!("no fuzz target for {}", id);
                    std::process::exit(2);
                }
            };
            println!("{} seed files written to {}", n, dir);
            0
        }
        "quick" => run_prop(&prop, Tier::Quick, seed).exit_code,
        "thorough" => run_prop(&prop, Tier::Thorough, seed).exit_code,
        other => {
            eprintln!("unknown mode {}", other);
            2
        }
    };
    std::process::exit(code);
}
