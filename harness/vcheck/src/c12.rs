//! C12 - IPv4 fragmentation and reassembly reproduce the datagram or deliver nothing.
//!
//! Parts
//! * `e2e`    - a sender node (UDP x2 / ICMP / raw sockets, Medium::Ip or Ethernet, IP MTU
//!              68..) is asked to send 1..n datagrams back to back, interleaved with
//!              fragmented echo requests it has to answer and with polls whose transmit
//!              budget is 0..3 frames; egress oracle on the wire; then the captured
//!              packets are handed to a receiver node in a drawn order with duplicates
//!              and losses; ingress oracle on the receiver's sockets and echo replies.
//! * `reasm`  - receiver only; 1..6 datagrams from up to 3 peers cut by the harness'
//!              own fragmenter (free sizes, agreeing overlaps, colliding idents that
//!              differ in source/protocol only), interleaved, with time jumps across
//!              the reassembly timeout.
//! * `perm`   - replay form of the exhaustive phase: one datagram of 2..4 fragments as
//!              transmitted by a real sender, one permutation, at most one duplicate.
//! Phase `all permutations` enumerates every permutation x single-duplication
//! pattern for a grid of (medium, protocol, MTU, fragment count) configurations.

#[path = "c12_host.rs"]
mod c12_host;

use c12_host::*;
use serde_json::json;
use smoltcp::config::{FRAGMENTATION_BUFFER_SIZE, REASSEMBLY_BUFFER_COUNT};
use vkit::indep::*;
use vkit::runner::{Fail, Part, PhaseResult, Prop, RunEnv, Tier};
use vkit::{Ctx, Src};

const IP_A: [u8; 4] = [10, 0, 0, 1];
const IP_B: [u8; 4] = [10, 0, 0, 2];
/// second address of the receiver in the reassembly part
const IP_B2: [u8; 4] = [10, 0, 0, 22];
const MAC_A: [u8; 6] = [0x02, 0, 0, 0, 0, 0x0a];
const MAC_B: [u8; 6] = [0x02, 0, 0, 0, 0, 0x0b];
const PEERS: [([u8; 4], [u8; 6]); 3] = [
    ([10, 0, 0, 1], [0x02, 0, 0, 0, 0, 0x0a]),
    ([10, 0, 0, 3], [0x02, 0, 0, 0, 0, 0x0c]),
    ([10, 0, 0, 4], [0x02, 0, 0, 0, 0, 0x0d]),
];

const BUDGETS: [Option<usize>; 5] = [None, Some(1), Some(0), Some(2), Some(3)];

fn draw_budget(src: &mut Src) -> Option<usize> {
    BUDGETS[src.weighted(&[4, 3, 1, 2, 2])]
}

/// IP MTU 68..: small ones dominate (many fragments), standard ones, and some above the
/// fragmentation buffer.
fn draw_ip_mtu(src: &mut Src) -> usize {
    match src.weighted(&[3, 3, 2, 2, 1]) {
        0 => src.usize(68, 200),
        1 => *src.pick(&[1500usize, 576, 68, 1280, 296, 1006, 4096, 9000]),
        2 => src.usize(68, 1500),
        3 => src.biased(68, 1500) as usize,
        _ => src.usize(1501, 5000),
    }
}

/// Total IP length for a datagram with `overhead` header bytes after the IP header,
/// biased to the fragmentation boundaries for this MTU.
fn draw_total(src: &mut Src, ip_mtu: usize, overhead: usize) -> usize {
    let fs = (ip_mtu - 20) & !7;
    let lo = 20 + overhead;
    let hi = FRAGMENTATION_BUFFER_SIZE + 120;
    let t = match src.weighted(&[3, 3, 3, 2, 2, 1]) {
        0 => src.usize(lo, hi),
        1 => {
            // around the MTU: last unfragmented / first fragmented
            (ip_mtu + src.usize(0, 16)).saturating_sub(8)
        }
        2 => {
            // k full fragments +- a little
            let k = src.usize(2, 5);
            (20 + k * fs + src.usize(0, 16)).saturating_sub(8)
        }
        3 => {
            // around the fragmentation buffer size
            FRAGMENTATION_BUFFER_SIZE + src.usize(0, 10) - 5
        }
        4 => src.usize(lo, lo + 64),
        _ => {
            let k = src.usize(2, 40);
            20 + k * fs - src.usize(0, 8)
        }
    };
    t.clamp(lo, hi)
}

fn advance(src: &mut Src, h: &mut Host, choices: &[i64], cap_us: i64) {
    let d = *src.pick(choices);
    if h.now_us + d <= cap_us {
        h.now_us += d;
    }
}

/// Cut `total` bytes into in-order pieces of `fs` bytes (multiple of 8).
fn cut_even(total: usize, fs: usize) -> Vec<(usize, usize)> {
    let mut v = vec![];
    let mut a = 0;
    while a < total {
        let b = (a + fs).min(total);
        v.push((a, b));
        a = b;
    }
    if v.is_empty() {
        v.push((0, 0));
    }
    v
}

/// Order/duplicate/drop a list of packets according to drawn choices.
fn schedule(src: &mut Src, per_dgram: Vec<Vec<Pkt>>, ctx: &mut Ctx) -> Vec<Pkt> {
    let mode = src.weighted(&[3, 2, 2, 3, 2]);
    let mut flat: Vec<Pkt> = vec![];
    match mode {
        0 => {
            ctx.label("order:in-order");
            for d in per_dgram {
                flat.extend(d);
            }
        }
        1 => {
            ctx.label("order:each-datagram-reversed");
            for mut d in per_dgram {
                d.reverse();
                flat.extend(d);
            }
        }
        2 => {
            ctx.label("order:round-robin-interleaved");
            let mut its: Vec<std::vec::IntoIter<Pkt>> = per_dgram.into_iter().map(|d| d.into_iter()).collect();
            loop {
                let mut any = false;
                for it in its.iter_mut() {
                    if let Some(p) = it.next() {
                        flat.push(p);
                        any = true;
                    }
                }
                if !any {
                    break;
                }
            }
        }
        3 => {
            ctx.label("order:few-swaps");
            for d in per_dgram {
                flat.extend(d);
            }
            let n = flat.len();
            if n >= 2 {
                let mut k = 0;
                while k < 6 && src.more(2, 3) {
                    k += 1;
                    let i = src.usize(0, n - 1);
                    let j = (i + 1 + src.usize(0, 3)).min(n - 1);
                    flat.swap(i, j);
                }
            }
        }
        _ => {
            ctx.label("order:shuffled");
            for d in per_dgram {
                flat.extend(d);
            }
            let n = flat.len();
            for i in 0..n.saturating_sub(1) {
                let j = i + src.usize(0, n - 1 - i);
                flat.swap(i, j);
            }
        }
    }
    // losses and duplicates
    let mut out: Vec<Pkt> = vec![];
    let lossy = src.chance(1, 4);
    let dupy = src.chance(1, 2);
    let mut extra: Vec<(usize, Pkt)> = vec![];
    for (i, p) in flat.into_iter().enumerate() {
        if lossy && src.chance(1, 10) {
            ctx.label("order:fragment-lost");
            continue;
        }
        if dupy && src.chance(1, 6) {
            ctx.label("order:fragment-duplicated");
            let later = src.usize(0, 6);
            extra.push((i + later, p.clone()));
        }
        out.push(p);
    }
    for (at, p) in extra {
        let at = at.min(out.len());
        out.insert(at, p);
    }
    out
}

/// Feed `pkts` to host `h` in drawn batches with drawn time steps and budgets.
fn feed(src: &mut Src, h: &mut Host, pkts: Vec<Pkt>, ctx: &mut Ctx) -> Result<(), Fail> {
    let slow = src.chance(1, 4);
    let arp_refresh = src.chance(5, 6);
    let mut last_arp: Vec<([u8; 4], i64)> = vec![];
    let mut it = pkts.into_iter().peekable();
    while it.peek().is_some() {
        let n = match src.weighted(&[5, 2, 1]) {
            0 => 1,
            1 => src.usize(2, 6),
            _ => src.usize(7, MAX_BATCH),
        };
        let dt = if slow {
            *src.pick(&[0i64, 1_000, 1_000_000, 10_000_000, 29_000_000, 31_000_000, 59_999_000, 60_000_000, 60_001_000, 61_000_000, 125_000_000])
        } else {
            *src.pick(&[1_000i64, 0, 100, 50_000, 1_000_000])
        };
        h.now_us += dt;
        for _ in 0..n {
            let Some(p) = it.next() else { break };
            if h.eth && arp_refresh {
                let peer = p.key.0;
                let fresh = last_arp.iter().any(|(ip, t)| *ip == peer && h.now_us - *t < 30_000_000);
                if !fresh {
                    last_arp.retain(|(ip, _)| *ip != peer);
                    last_arp.push((peer, h.now_us));
                    h.queue_arp(peer, true);
                }
            }
            h.queue_pkt(p);
        }
        let b = draw_budget(src);
        h.poll(b, ctx)?;
    }
    Ok(())
}

fn add_peers(h: &mut Host, peers: &[([u8; 4], [u8; 6])]) {
    for p in peers {
        h.peers.push(*p);
    }
}

// ---------------------------------------------------------------------------- e2e

fn case_e2e(src: &mut Src, ctx: &mut Ctx) -> Result<(), Fail> {
    let eth = src.bool();
    let mtu_a = draw_ip_mtu(src);
    let seed = src.u64();
    let mut a = Host::new("sender", eth, mtu_a, IP_A, MAC_A, seed);
    add_peers(&mut a, &[(IP_B, MAC_B)]);
    ctx.note(|| format!("sender: {} IP MTU {} (device MTU {})", if eth { "Ethernet" } else { "Medium::Ip" }, mtu_a, a.mtu));
    ctx.label(if eth { "medium:ethernet" } else { "medium:ip" });
    if eth {
        if src.chance(3, 4) {
            ctx.label("arp:pre-resolved");
            a.queue_arp(IP_B, true);
            a.poll(None, ctx)?;
        } else {
            ctx.label("arp:on-demand");
        }
    }
    let mut sends = 0usize;
    let mut oversized = 0usize;
    let mut echo_in = 0usize;
    let mut steps = 0;
    let mut sockets_used = [false; 4];
    while steps < 16 && src.more(7, 8) {
        steps += 1;
        match src.weighted(&[6, 2, 4]) {
            0 => {
                let which = src.weighted(&[4, 2, 2, 2]);
                let serial = a.next_serial();
                let ok = match which {
                    0 | 1 => {
                        let t = draw_total(src, mtu_a, 8);
                        let dport = UDP_PORTS[src.usize(0, 1)];
                        a.send_udp(which, IP_B, dport, pattern(serial, t - 28), ctx).then_some(t)
                    }
                    2 => {
                        let t = draw_total(src, mtu_a, 8);
                        let request = src.bool();
                        let ident = if src.chance(1, 5) { IDENT + 1 } else { IDENT };
                        a.send_echo(IP_B, request, ident, serial, pattern(serial, t - 28), ctx).then_some(t)
                    }
                    _ => {
                        let t = draw_total(src, mtu_a, 0);
                        let ttl = *src.pick(&[64u8, 1, 255, 17]);
                        a.send_raw(IP_B, ttl, pattern(serial, t - 20), ctx).then_some(t)
                    }
                };
                if let Some(t) = ok {
                    sends += 1;
                    sockets_used[which] = true;
                    if t > mtu_a && a.can_transmit(t) {
                        oversized += 1;
                    }
                }
            }
            1 => {
                // a fragmented echo request from B that the sender has to answer
                let serial = a.next_serial();
                let t = draw_total(src, mtu_a, 8).min(FRAGMENTATION_BUFFER_SIZE + 40);
                let ident = if src.chance(1, 4) { IDENT + 1 } else { IDENT };
                let d = Dgram::echo(IP_B, IP_A, true, ident, serial, pattern(serial, t - 28));
                ctx.note(|| format!("peer sends {}", d.describe()));
                let fs = match src.weighted(&[2, 2, 1]) {
                    0 => (mtu_a - 20) & !7,
                    1 => 1480,
                    _ => 8 * src.usize(1, 64),
                };
                let o = a.add_orig(d.clone());
                let mut pk = fragment(&d, o, 0x7000 + serial, &cut_even(d.ip_payload.len(), fs));
                if src.chance(1, 3) {
                    pk.reverse();
                }
                if t > mtu_a {
                    oversized += 1;
                }
                echo_in += 1;
                if eth && src.chance(7, 8) {
                    a.queue_arp(IP_B, true);
                }
                for p in pk {
                    a.queue_pkt(p);
                }
            }
            _ => {
                advance(src, &mut a, &[0, 100, 1_000, 50_000, 1_000_000], 25_000_000);
                let b = draw_budget(src);
                a.answer_arp = !eth || src.chance(9, 10);
                a.poll(b, ctx)?;
            }
        }
    }
    a.tail(ctx)?;
    a.finish_egress(ctx)?;
    a.finish_ingress(ctx)?;
    ctx.count("fragments_emitted_by_sender", a.frags_emitted);
    match oversized {
        0 => ctx.label("oversized:0"),
        1 => ctx.label("oversized:1"),
        2 => ctx.label("oversized:2"),
        _ => ctx.label("oversized:3+"),
    }
    if echo_in > 0 {
        ctx.label("sender:ingress-triggered-reply");
    }
    if sockets_used.iter().filter(|x| **x).count() >= 2 {
        ctx.label("sender:several-sockets");
    }

    // ---- receiver: gets what the sender transmitted (only datagrams that left completely)
    let mtu_b = if src.chance(1, 2) { mtu_a } else { draw_ip_mtu(src) };
    let mut b = Host::new("receiver", eth, mtu_b, IP_B, MAC_B, seed ^ 0x5555);
    add_peers(&mut b, &[(IP_A, MAC_A)]);
    ctx.note(|| format!("receiver: IP MTU {}", mtu_b));
    let mut per: Vec<Vec<Pkt>> = vec![];
    let mut maxfr = 0;
    for (ei, pkts) in a.captured.iter() {
        let d = a.exp[*ei].d.clone();
        if d.dst != IP_B {
            continue;
        }
        let o = b.add_orig(d);
        maxfr = maxfr.max(pkts.len());
        per.push(pkts.iter().map(|p| Pkt::from_ip4(p, o)).collect());
    }
    let ndg = per.len();
    let sched = schedule(src, per, ctx);
    feed(src, &mut b, sched, ctx)?;
    b.tail(ctx)?;
    b.finish_egress(ctx)?;
    b.finish_ingress(ctx)?;
    if maxfr >= 2 {
        ctx.nontrivial = true;
    }
    ctx.digest.u64(eth as u64);
    ctx.digest.u64(mtu_a as u64);
    ctx.digest.u64(sends as u64);
    ctx.digest.u64(oversized as u64);
    ctx.digest.u64(ndg as u64);
    for o in &b.origs {
        ctx.digest.u64(o.d.total_len() as u64);
        for a in &o.arrived {
            ctx.digest.u64(a.0 as u64);
        }
    }
    Ok(())
}

// ---------------------------------------------------------------------------- reasm

fn draw_pieces(src: &mut Src, total: usize, ctx: &mut Ctx) -> Vec<(usize, usize)> {
    if total < 16 || src.chance(1, 8) {
        return vec![(0, total)];
    }
    let mut pieces = match src.weighted(&[3, 3, 2]) {
        0 => {
            let fs = 8 * src.usize(1, 185);
            cut_even(total, fs)
        }
        1 => {
            // 2..6 pieces with free cut points
            let k = src.usize(1, 5);
            let mut cuts: Vec<usize> = (0..k).map(|_| 8 * src.usize(1, (total - 1) / 8)).collect();
            cuts.push(0);
            cuts.push(total);
            cuts.sort();
            cuts.dedup();
            cuts.windows(2).map(|w| (w[0], w[1])).collect()
        }
        _ => {
            let fs = *src.pick(&[1480usize, 48, 8, 552, 1024]);
            cut_even(total, fs)
        }
    };
    if pieces.len() >= 2 && src.chance(1, 3) {
        ctx.label("pieces:overlapping");
        let n = pieces.len();
        let mut k = 0;
        while k < 3 && src.more(1, 2) {
            k += 1;
            let i = src.usize(0, n - 1);
            let (a, b) = pieces[i];
            // grow to the left and/or (non-last pieces) to the right, staying aligned
            let left = 8 * src.usize(0, 4).min(a / 8);
            let mut nb = b;
            if b != total {
                let lim = (total - b) / 8; // may reach at most the last multiple of 8 <= total
                nb = b + 8 * src.usize(0, 4).min(lim);
                if nb > total {
                    nb = b;
                }
            }
            pieces[i] = (a - left, nb);
        }
    }
    pieces
}

fn case_reasm(src: &mut Src, ctx: &mut Ctx) -> Result<(), Fail> {
    let eth = src.bool();
    let mtu_b = draw_ip_mtu(src);
    let seed = src.u64();
    let mut b = Host::new("receiver", eth, mtu_b, IP_B, MAC_B, seed);
    add_peers(&mut b, &PEERS);
    // the receiver owns a second address; which datagrams go to it is decided from bits of the
    // drawn seed (no further draws), so that datagrams differing in nothing but the destination
    // - same source, protocol and identification - are in flight together
    b.add_ip(IP_B2);
    ctx.label(if eth { "medium:ethernet" } else { "medium:ip" });
    ctx.note(|| format!("receiver: {} IP MTU {}", if eth { "Ethernet" } else { "Medium::Ip" }, mtu_b));
    let mut per: Vec<Vec<Pkt>> = vec![];
    let mut keys: Vec<FragKey> = vec![];
    let mut maxfr = 0;
    let small_ids = src.chance(1, 2);
    while per.len() < 6 && (per.is_empty() || src.more(3, 4)) {
        let peer = PEERS[src.weighted(&[3, 1, 1])].0;
        let serial = b.next_serial();
        let total = match src.weighted(&[4, 2, 1]) {
            0 => src.usize(28, 600),
            1 => src.usize(28, FRAGMENTATION_BUFFER_SIZE),
            _ => src.usize(FRAGMENTATION_BUFFER_SIZE - 8, FRAGMENTATION_BUFFER_SIZE + 1000),
        };
        let to = if (seed >> (16 + 2 * per.len())) & 3 == 0 { IP_B2 } else { IP_B };
        let d = match src.weighted(&[3, 2, 1, 2]) {
            0 => Dgram::udp(peer, to, 4000 + src.usize(0, 2) as u16, UDP_PORTS[src.usize(0, 1)], pattern(serial, total - 28)),
            1 => Dgram::echo(peer, to, true, if src.chance(1, 5) { IDENT + 1 } else { IDENT }, serial, pattern(serial, total - 28)),
            2 => Dgram::echo(peer, to, false, IDENT, serial, pattern(serial, total - 28)),
            _ => Dgram::raw(peer, to, *src.pick(&[64u8, 1, 200]), pattern(serial, total - 20)),
        };
        let mut id = if small_ids { 1 + src.usize(0, 1) as u16 } else { src.u16() };
        // a datagram to the second address takes, where there is one, the identification of an
        // earlier datagram from the same source with the same protocol to the first address
        if to == IP_B2 {
            if let Some(k) = keys.iter().find(|k| k.0 == d.src && k.2 == d.proto && k.1 != to) {
                id = k.3;
            }
        }
        while keys.contains(&(d.src, d.dst, d.proto, id)) {
            id = id.wrapping_add(1);
        }
        if keys.iter().any(|k| k.3 == id) {
            ctx.label("ident-shared-by-datagrams-differing-in-source-or-protocol");
        }
        if keys.iter().any(|k| k.3 == id && k.0 == d.src && k.2 == d.proto) {
            ctx.label("ident-shared-by-datagrams-differing-in-destination-only");
        }
        keys.push((d.src, d.dst, d.proto, id));
        let pieces = draw_pieces(src, d.ip_payload.len(), ctx);
        ctx.note(|| format!("original #{}: id={:#06x} {} in {} piece(s) {:?}", per.len(), id, d.describe(), pieces.len(), &pieces[..pieces.len().min(12)]));
        let o = b.add_orig(d.clone());
        maxfr = maxfr.max(pieces.len());
        per.push(fragment(&d, o, id, &pieces));
    }
    let ndg = per.len();
    if ndg > REASSEMBLY_BUFFER_COUNT {
        ctx.label("datagrams:more-than-slots");
    }
    let sched = schedule(src, per, ctx);
    feed(src, &mut b, sched, ctx)?;
    b.tail(ctx)?;
    b.finish_egress(ctx)?;
    b.finish_ingress(ctx)?;
    if maxfr >= 2 {
        ctx.nontrivial = true;
    }
    ctx.digest.u64(eth as u64);
    ctx.digest.u64(ndg as u64);
    for o in &b.origs {
        ctx.digest.u64(o.d.total_len() as u64);
        for a in &o.arrived {
            ctx.digest.u64(a.0 as u64);
            ctx.digest.u64(a.1 as u64);
        }
    }
    Ok(())
}

// ---------------------------------------------------------------------------- perm

#[derive(Clone, Copy, Debug)]
struct PermCfg {
    eth: bool,
    kind: usize,
    ip_mtu: usize,
    dlen: usize,
}

fn factorial(n: usize) -> usize {
    (1..=n).product()
}

/// k-th permutation of 0..n (Lehmer code).
fn nth_perm(n: usize, mut k: usize) -> Vec<usize> {
    let mut items: Vec<usize> = (0..n).collect();
    let mut out = vec![];
    for i in (1..=n).rev() {
        let f = factorial(i - 1);
        let idx = k / f;
        k %= f;
        out.push(items.remove(idx));
    }
    out
}

/// A real sender transmits one datagram; returns it with the packets as transmitted.
fn perm_capture(cfg: &PermCfg, ctx: &mut Ctx) -> Result<Option<(Dgram, Vec<Ip4>)>, Fail> {
    let mut a = Host::new("sender", cfg.eth, cfg.ip_mtu, IP_A, MAC_A, 0x1234_5678_9abc);
    add_peers(&mut a, &[(IP_B, MAC_B)]);
    if cfg.eth {
        a.queue_arp(IP_B, true);
        a.poll(None, ctx)?;
    }
    let data = pattern(1, cfg.dlen);
    let ok = match cfg.kind {
        0 => a.send_udp(0, IP_B, UDP_PORTS[0], data, ctx),
        1 => a.send_echo(IP_B, true, IDENT, 1, data, ctx),
        _ => a.send_raw(IP_B, 64, data, ctx),
    };
    if !ok {
        return Ok(None);
    }
    a.tail(ctx)?;
    a.finish_egress(ctx)?;
    let Some((ei, pkts)) = a.captured.first() else { return Ok(None) };
    Ok(Some((a.exp[*ei].d.clone(), pkts.clone())))
}

/// Deliver `pkts` in permutation `perm`, with packet `dup.0` repeated at position `dup.1`.
fn perm_deliver(cfg: &PermCfg, d: &Dgram, pkts: &[Ip4], perm: &[usize], dup: Option<(usize, usize)>, ctx: &mut Ctx) -> Result<(), Fail> {
    let mut b = Host::new("receiver", cfg.eth, cfg.ip_mtu, IP_B, MAC_B, 0x0bad_cafe);
    add_peers(&mut b, &[(IP_A, MAC_A)]);
    let o = b.add_orig(d.clone());
    let mut seq: Vec<usize> = perm.to_vec();
    if let Some((which, pos)) = dup {
        seq.insert(pos.min(seq.len()), which);
    }
    ctx.note(|| format!("{} fragments of {} delivered in order {:?}", pkts.len(), d.describe(), seq));
    if cfg.eth {
        b.queue_arp(IP_A, true);
    }
    for i in seq {
        b.queue_pkt(Pkt::from_ip4(&pkts[i], o));
        b.now_us += 1_000;
        b.poll(None, ctx)?;
    }
    b.tail(ctx)?;
    b.finish_egress(ctx)?;
    b.finish_ingress(ctx)?;
    // stronger than the general oracle: exactly one copy is complete and nothing is near a limit
    let got = b.origs[o].got;
    if got != 1 {
        return Err(Fail::new(
            if got == 0 { "ingress:not-delivered-although-within-limits" } else { "ingress:delivered-more-often-than-complete-copies-arrived" },
            format!("{} fragments (one duplicate at most) of {} were delivered {} time(s), expected exactly once", pkts.len(), d.describe(), got),
        ));
    }
    Ok(())
}

fn case_perm(src: &mut Src, ctx: &mut Ctx) -> Result<(), Fail> {
    let eth = src.draw(1) == 1;
    let kind = src.draw(2) as usize;
    let ip_mtu = 68 + src.draw(1432) as usize;
    let dlen = src.draw(4200) as usize;
    let permk = src.draw(23) as usize;
    let which = src.draw(4) as usize;
    let pos = src.draw(4) as usize;
    let cfg = PermCfg { eth, kind, ip_mtu, dlen };
    ctx.note(|| format!("{:?}", cfg));
    let Some((d, pkts)) = perm_capture(&cfg, ctx)? else {
        ctx.label("perm:nothing-captured");
        return Ok(());
    };
    let n = pkts.len();
    if !(2..=4).contains(&n) {
        ctx.label("perm:not-2..4-fragments");
        return Ok(());
    }
    let perm = nth_perm(n, permk % factorial(n));
    let dup = if which == 0 { None } else { Some(((which - 1).min(n - 1), pos.min(n))) };
    ctx.nontrivial = true;
    ctx.label(match n {
        2 => "perm:2-fragments",
        3 => "perm:3-fragments",
        _ => "perm:4-fragments",
    });
    ctx.digest.u64(eth as u64);
    ctx.digest.u64(kind as u64);
    ctx.digest.u64(ip_mtu as u64);
    ctx.digest.u64(dlen as u64);
    ctx.digest.u64(permk as u64);
    ctx.digest.u64(which as u64 * 8 + pos as u64);
    perm_deliver(&cfg, &d, &pkts, &perm, dup, ctx)
}

fn phase_perms(env: &RunEnv) -> PhaseResult {
    let mtus: Vec<usize> = if env.tier == Tier::Quick { vec![68, 75, 576, 1500] } else { vec![68, 69, 75, 76, 100, 296, 576, 1006, 1280, 1499, 1500] };
    let mut evaluations = 0u64;
    let mut configs = 0u64;
    let mut failures: Vec<(String, Vec<u64>, Fail)> = vec![];
    let mut by_n = [0u64; 5];
    let none = std::sync::Arc::new(vec![]);
    'all: for eth in [false, true] {
        for kind in 0..3usize {
            for &ip_mtu in &mtus {
                let fs = (ip_mtu - 20) & !7;
                let hdr = if kind == 2 { 0 } else { 8 };
                for n in 2..=4usize {
                    // last fragment full / one byte / partial
                    for tail in [fs, 1, fs / 2 + 1] {
                        let ip_payload = (n - 1) * fs + tail;
                        if ip_payload < hdr || 20 + ip_payload > FRAGMENTATION_BUFFER_SIZE {
                            continue;
                        }
                        let cfg = PermCfg { eth, kind, ip_mtu, dlen: ip_payload - hdr };
                        let mut ctx = Ctx::new(false, none.clone(), true);
                        let cap = vkit::runner::guarded(|| perm_capture(&cfg, &mut ctx));
                        let base_tape = vec![eth as u64, kind as u64, (ip_mtu - 68) as u64, cfg.dlen as u64];
                        let (d, pkts) = match cap {
                            Ok(Ok(Some(x))) => x,
                            Ok(Ok(None)) => continue,
                            Ok(Err(f)) => {
                                let mut t = base_tape.clone();
                                t.extend_from_slice(&[0, 0, 0]);
                                failures.push(("perm".into(), t, f));
                                continue;
                            }
                            Err(p) => {
                                let mut t = base_tape.clone();
                                t.extend_from_slice(&[0, 0, 0]);
                                failures.push(("perm".into(), t, Fail::new(vkit::runner::panic_key(&p), format!("panic at {}:{}: {}", p.file, p.line, p.msg))));
                                continue;
                            }
                        };
                        if pkts.len() != n {
                            // the sender cut differently from what the grid assumed: still enumerate if 2..4
                            if !(2..=4).contains(&pkts.len()) {
                                continue;
                            }
                        }
                        let n = pkts.len();
                        configs += 1;
                        for permk in 0..factorial(n) {
                            let perm = nth_perm(n, permk);
                            let mut dups: Vec<Option<(usize, usize)>> = vec![None];
                            for which in 0..n {
                                for pos in 0..=n {
                                    dups.push(Some((which, pos)));
                                }
                            }
                            for dup in dups {
                                evaluations += 1;
                                by_n[n] += 1;
                                let mut ctx = Ctx::new(false, none.clone(), true);
                                let r = vkit::runner::guarded(|| perm_deliver(&cfg, &d, &pkts, &perm, dup, &mut ctx));
                                let fail = match r {
                                    Ok(Ok(())) => None,
                                    Ok(Err(f)) => Some(f),
                                    Err(p) => Some(Fail::new(vkit::runner::panic_key(&p), format!("panic at {}:{}: {}", p.file, p.line, p.msg))),
                                };
                                if let Some(f) = fail {
                                    if env.known_open.iter().any(|k| vkit::runner::key_matches(k, &f.key)) {
                                        continue;
                                    }
                                    let mut t = base_tape.clone();
                                    let (w, p) = match dup {
                                        None => (0, 0),
                                        Some((w, p)) => (w + 1, p),
                                    };
                                    t.extend_from_slice(&[permk as u64, w as u64, p as u64]);
                                    if !failures.iter().any(|x| x.2.key == f.key) {
                                        failures.push(("perm".into(), t, f));
                                    }
                                    if failures.len() >= 8 {
                                        break 'all;
                                    }
                                }
                            }
                        }
                    }
                }
            }
        }
    }
    PhaseResult {
        name: "all permutations x single duplications of 2..4 fragments as transmitted by a sender node".into(),
        evaluations,
        nontrivial: evaluations,
        exhaustive: failures.is_empty(),
        failures,
        extra: json!({
            "configurations": configs, "ip_mtus": mtus, "media": ["ip", "ethernet"], "protocols": ["udp", "icmp echo request (answered)", "raw"],
            "evaluations_by_fragment_count": {"2": by_n[2], "3": by_n[3], "4": by_n[4]},
            "per_configuration": "n! permutations x (1 + n*(n+1)) duplication patterns",
        }),
        samples: vec![json!({
            "phase": "all permutations",
            "example": "Ethernet, UDP, IP MTU 576, 4 fragments (552+552+552+1 payload bytes): order [2,0,3,1] with fragment 0 repeated at position 4",
        })],
    }
}

pub fn prop() -> Prop {
    Prop {
        id: "C12",
        parts: vec![
            Part { name: "e2e", case: case_e2e, quick: 14_000, thorough: 700_000 },
            Part { name: "reasm", case: case_reasm, quick: 14_000, thorough: 700_000 },
            Part { name: "perm", case: case_perm, quick: 2_000, thorough: 100_000 },
        ],
        phases: vec![phase_perms],
        smoltcp_panic_is_violation: true,
        rule: "e2e: sender node (Medium::Ip or Ethernet, IP MTU 68..5000 biased small, neighbour pre-resolved or resolved on demand) with two UDP sockets, an ICMP socket and a raw socket is asked to send up to 16 datagrams (total IP length 20..FRAGMENTATION_BUFFER_SIZE+120, biased to the MTU, k-full-fragments and buffer-size boundaries) back to back, interleaved with fragmented echo requests it must answer and polls with transmit budget none/0/1/2/3, then a tail of unlimited polls; every emitted frame is decoded independently, fragments checked on the wire and rebuilt with the reference reassembler; the captured packets are then delivered to a receiver node in a drawn order (in order, reversed, round-robin, few swaps, shuffled) with duplicates and losses, in batches of 1..40 per poll, with time steps up to 125 s. reasm: receiver only, 1..6 datagrams from 3 peers cut by the harness (free 8-aligned cut points, agreeing overlaps, idents colliding except for source/protocol), same delivery machinery. perm + phase: every permutation x single duplication of the 2..4 fragments a sender node transmits, over a grid of medium x protocol x MTU x last-fragment size. Non-trivial = some datagram travels in >= 2 fragments; distinct by (medium, MTU, datagram lengths, arrival offsets).",
        assumptions: vec![
            "independent Ethernet/ARP/IPv4/UDP/ICMP codecs and reference reassembler in vkit::indep",
            "delivery is demanded only when a reference model of the reassembly slots (key = ident/src/dst/protocol, REASSEMBLY_BUFFER_COUNT slots, expiry = first fragment + reassembly_timeout checked at the start of each poll, at most ASSEMBLER_MAX_SEGMENT_COUNT disjoint byte ranges with touching ranges merged, payload <= REASSEMBLY_BUFFER_SIZE) completes the datagram without touching any limit",
            "upper bound on deliveries = whole copies + min(number of last fragments, minimum over payload bytes of the number of arrived fragments covering the byte)",
            "a datagram that needs fragmentation and is longer than FRAGMENTATION_BUFFER_SIZE is dropped by design (dispatch_ip logs and returns Ok)",
            "echo replies are owed only while the requester's ARP entry is younger than 50 s (Ethernet)",
            "fragments of different datagrams may interleave on the wire as long as each datagram is transmitted completely",
        ],
    }
}
