//! C16, part `ieee802154` (placeholder while the Ethernet part is being brought up).
use vkit::runner::Fail;
use vkit::{Ctx, Src};

pub fn case(_src: &mut Src, _ctx: &mut Ctx) -> Result<(), Fail> {
    Ok(())
}
