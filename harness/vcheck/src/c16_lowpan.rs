//! C16, part `ieee802154`: own minimal IEEE 802.15.4 MAC header codec and
//! RFC 6282 IPHC / UDP-NHC decoder (stateless modes only), independent of
//! smoltcp::wire, plus the case entry point (the world and the oracle are
//! shared with the Ethernet part in c16.rs).

use vkit::indep::{Ip6, PROTO_UDP};
use vkit::runner::Fail;
use vkit::{Ctx, Src};

pub fn case(src: &mut Src, ctx: &mut Ctx) -> Result<(), Fail> {
    super::run(src, ctx, true)
}

// ------------------------------------------------------------------ IEEE 802.15.4 MAC header

#[derive(Clone, Debug)]
#[allow(dead_code)]
pub struct Mac154 {
    pub frame_type: u8,
    pub seq: u8,
    pub dst_pan: Option<u16>,
    /// canonical (most significant octet first) form, 2 or 8 octets
    pub dst: Option<Vec<u8>>,
    pub src: Option<Vec<u8>>,
    pub payload: Vec<u8>,
}

/// Frame control, sequence number, addressing fields of a 2003/2006 frame without security.
pub fn decode_154(b: &[u8]) -> Result<Mac154, String> {
    if b.len() < 3 {
        return Err("802.15.4: shorter than frame control + sequence number".into());
    }
    let fc = u16::from_le_bytes([b[0], b[1]]);
    let frame_type = (fc & 7) as u8;
    let security = fc & 0x0008 != 0;
    let pan_comp = fc & 0x0040 != 0;
    let dst_mode = (fc >> 10) & 3;
    let version = (fc >> 12) & 3;
    let src_mode = (fc >> 14) & 3;
    if version > 1 {
        return Err(format!("802.15.4: frame version {} not handled", version));
    }
    if security {
        return Err("802.15.4: security enabled".into());
    }
    let mut at = 3;
    let take = |at: &mut usize, n: usize| -> Result<Vec<u8>, String> {
        if *at + n > b.len() {
            return Err("802.15.4: truncated addressing fields".into());
        }
        let v = b[*at..*at + n].to_vec();
        *at += n;
        Ok(v)
    };
    let alen = |mode: u16| -> Result<usize, String> {
        match mode {
            0 => Ok(0),
            2 => Ok(2),
            3 => Ok(8),
            _ => Err("802.15.4: reserved addressing mode".into()),
        }
    };
    let (dl, sl) = (alen(dst_mode)?, alen(src_mode)?);
    let mut dst_pan = None;
    let mut dst = None;
    if dl > 0 {
        let p = take(&mut at, 2)?;
        dst_pan = Some(u16::from_le_bytes([p[0], p[1]]));
        let mut a = take(&mut at, dl)?;
        a.reverse();
        dst = Some(a);
    }
    let mut src = None;
    if sl > 0 {
        if !(pan_comp && dl > 0) {
            take(&mut at, 2)?;
        }
        let mut a = take(&mut at, sl)?;
        a.reverse();
        src = Some(a);
    }
    Ok(Mac154 { frame_type, seq: b[2], dst_pan, dst, src, payload: b[at..].to_vec() })
}

/// Data frame, 2003 version, PAN id compression, both addresses present.
pub fn encode_154(seq: u8, pan: u16, dst: &[u8], src: &[u8], payload: &[u8]) -> Vec<u8> {
    let mode = |a: &[u8]| -> u16 {
        match a.len() {
            2 => 2,
            8 => 3,
            _ => panic!("802.15.4 address of {} octets", a.len()),
        }
    };
    let fc: u16 = 1 | 0x0040 | (mode(dst) << 10) | (mode(src) << 14);
    let mut b = fc.to_le_bytes().to_vec();
    b.push(seq);
    b.extend_from_slice(&pan.to_le_bytes());
    b.extend(dst.iter().rev());
    b.extend(src.iter().rev());
    b.extend_from_slice(payload);
    b
}

// ------------------------------------------------------------------ 6LoWPAN

pub enum Lowpan {
    /// an IPv6 packet (possibly only its first fragment: `first_fragment`)
    Packet { ip: Ip6, first_fragment: bool },
    /// a subsequent fragment (no IP header inside)
    FragN,
}

fn iid_from_l2(l: &[u8]) -> Result<[u8; 8], String> {
    match l.len() {
        8 => {
            let mut i = [0u8; 8];
            i.copy_from_slice(l);
            i[0] ^= 0x02;
            Ok(i)
        }
        2 => Ok([0, 0, 0, 0xff, 0xfe, 0, l[0], l[1]]),
        n => Err(format!("iphc: cannot derive an interface identifier from a {}-octet link-layer address", n)),
    }
}

fn link_local(iid: &[u8]) -> [u8; 16] {
    let mut a = [0u8; 16];
    a[0] = 0xfe;
    a[1] = 0x80;
    a[8..].copy_from_slice(iid);
    a
}

/// Decode the 6LoWPAN payload of an 802.15.4 data frame (RFC 4944 fragment
/// headers, RFC 6282 IPHC with stateless address modes, UDP NHC).
pub fn decode_lowpan(p: &[u8], l2_src: &[u8], l2_dst: &[u8]) -> Result<Lowpan, String> {
    if p.is_empty() {
        return Err("6lowpan: empty payload".into());
    }
    let mut p = p;
    let mut first_fragment = false;
    if p[0] & 0xf8 == 0xe0 {
        return Ok(Lowpan::FragN);
    }
    if p[0] & 0xf8 == 0xc0 {
        if p.len() < 4 {
            return Err("6lowpan: truncated FRAG1 header".into());
        }
        first_fragment = true;
        p = &p[4..];
    }
    if p.len() < 2 || p[0] & 0xe0 != 0x60 {
        return Err(format!("6lowpan: dispatch {:#04x} is not IPHC", p[0]));
    }
    let (b0, b1) = (p[0], p[1]);
    let tf = (b0 >> 3) & 3;
    let nh_compressed = (b0 >> 2) & 1 == 1;
    let hlim = b0 & 3;
    let cid = b1 >> 7 == 1;
    let sac = (b1 >> 6) & 1 == 1;
    let sam = (b1 >> 4) & 3;
    let m = (b1 >> 3) & 1 == 1;
    let dac = (b1 >> 2) & 1 == 1;
    let dam = b1 & 3;
    let mut at = 2;
    let mut take = |n: usize| -> Result<&[u8], String> {
        if at + n > p.len() {
            return Err("iphc: truncated header".into());
        }
        let s = &p[at..at + n];
        at += n;
        Ok(s)
    };
    if cid {
        take(1)?;
    }
    take([4usize, 3, 1, 0][tf as usize])?;
    let mut proto = 0u8;
    if !nh_compressed {
        proto = take(1)?[0];
    }
    let hop = match hlim {
        0 => take(1)?[0],
        1 => 1,
        2 => 64,
        _ => 255,
    };
    let mut src = [0u8; 16];
    if sac {
        if sam != 0 {
            return Err("iphc: context-based source address".into());
        }
    } else {
        match sam {
            0 => src.copy_from_slice(take(16)?),
            1 => src = link_local(take(8)?),
            2 => {
                let s = take(2)?;
                src = link_local(&[0, 0, 0, 0xff, 0xfe, 0, s[0], s[1]]);
            }
            _ => src = link_local(&iid_from_l2(l2_src)?),
        }
    }
    let mut dst = [0u8; 16];
    if dac {
        return Err("iphc: context-based destination address".into());
    }
    if !m {
        match dam {
            0 => dst.copy_from_slice(take(16)?),
            1 => dst = link_local(take(8)?),
            2 => {
                let s = take(2)?;
                dst = link_local(&[0, 0, 0, 0xff, 0xfe, 0, s[0], s[1]]);
            }
            _ => dst = link_local(&iid_from_l2(l2_dst)?),
        }
    } else {
        dst[0] = 0xff;
        match dam {
            0 => dst.copy_from_slice(take(16)?),
            1 => {
                let s = take(6)?;
                dst[1] = s[0];
                dst[11..16].copy_from_slice(&s[1..6]);
            }
            2 => {
                let s = take(4)?;
                dst[1] = s[0];
                dst[13..16].copy_from_slice(&s[1..4]);
            }
            _ => {
                dst[1] = 0x02;
                dst[15] = take(1)?[0];
            }
        }
    }
    let payload: Vec<u8>;
    if nh_compressed {
        let n = take(1)?[0];
        if n & 0xf8 != 0xf0 {
            return Err(format!("nhc: header {:#04x} is not UDP", n));
        }
        let c_elided = (n >> 2) & 1 == 1;
        let (sp, dp) = match n & 3 {
            0 => {
                let s = take(4)?;
                (u16::from_be_bytes([s[0], s[1]]), u16::from_be_bytes([s[2], s[3]]))
            }
            1 => {
                let s = take(3)?;
                (u16::from_be_bytes([s[0], s[1]]), 0xf000 | s[2] as u16)
            }
            2 => {
                let s = take(3)?;
                (0xf000 | s[0] as u16, u16::from_be_bytes([s[1], s[2]]))
            }
            _ => {
                let s = take(1)?[0];
                (0xf0b0 | (s >> 4) as u16, 0xf0b0 | (s & 0xf) as u16)
            }
        };
        let csum = if c_elided {
            [0u8, 0]
        } else {
            let s = take(2)?;
            [s[0], s[1]]
        };
        let data = &p[at..];
        let mut u = vec![];
        u.extend_from_slice(&sp.to_be_bytes());
        u.extend_from_slice(&dp.to_be_bytes());
        u.extend_from_slice(&((8 + data.len()) as u16).to_be_bytes());
        u.extend_from_slice(&csum);
        u.extend_from_slice(data);
        proto = PROTO_UDP;
        payload = u;
    } else {
        payload = p[at..].to_vec();
    }
    let mut ip = Ip6::new(src, dst, proto, payload);
    ip.hop = hop;
    Ok(Lowpan::Packet { ip, first_fragment })
}

/// IPHC encoding with everything in-line (TF elided, next header, hop limit and
/// both addresses carried in full), followed by the uncompressed upper layer.
pub fn encode_iphc_plain(ip: &Ip6) -> Vec<u8> {
    assert!(ip.ext.is_empty());
    let mut b = vec![0x78, if ip.dst[0] == 0xff { 0x08 } else { 0x00 }];
    b.push(ip.proto);
    b.push(ip.hop);
    b.extend_from_slice(&ip.src);
    b.extend_from_slice(&ip.dst);
    b.extend_from_slice(&ip.payload);
    b
}
