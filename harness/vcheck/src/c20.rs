//! C20 - 6LoWPAN compression and fragmentation are lossless.
//!
//! Two interfaces on IEEE 802.15.4 exchange UDP / ICMPv6 echo / TCP. Every frame a
//! node emits is decoded by an independent 802.15.4 + RFC 4944 + RFC 6282 codec
//! (c20_lowpan.rs) and reassembled; a channel permutes / duplicates / delays the
//! frames; a reference model of the bounded reassembler decides which datagrams
//! must come out of the receiver's sockets; the same script runs over Medium::Ip.

#[path = "c20_lowpan.rs"]
mod lowpan;
#[path = "c20_world.rs"]
mod world;
#[path = "c20_dgram.rs"]
mod dgram;
#[path = "c20_tcp.rs"]
mod tcpc;
#[path = "c20_enc.rs"]
mod enc;

use vkit::runner::{Part, Prop};

pub fn prop() -> Prop {
    Prop {
        id: "C20",
        parts: vec![
            Part { name: "dgram", case: dgram::dgram_case, quick: 30_000, thorough: 1_500_000 },
            Part { name: "perm", case: dgram::perm_case, quick: 6_000, thorough: 300_000 },
            Part { name: "tcp", case: tcpc::tcp_case, quick: 4_000, thorough: 200_000 },
            Part { name: "encoder", case: enc::enc_case, quick: 10_000, thorough: 500_000 },
            Part { name: "adversarial", case: enc::adv_case, quick: 10_000, thorough: 500_000 },
        ],
        phases: vec![dgram::perm_phase],
        smoltcp_panic_is_violation: true,
        rule: "two interfaces on Medium::Ieee802154 (extended/short hardware addresses, PAN id set or unset) with a link-local and a global address each (IID derived from the hardware address, 0000:00ff:fe00:XXXX form, arbitrary) exchange UDP (ports from the 4-bit, 8-bit and uncompressible classes, payload 0..4200 octets, source pinned or selected), ICMPv6 echo (request from an icmp socket, automatic reply) and TCP (PRF streams of 0..6 KiB both ways, close) to unicast / ff02::1 / solicited-node / other multicast destinations with hop limit 1/64/255/other, 1-3 (rarely up to 6) datagrams back to back in 1-2 bursts, with and without transmit back-pressure (poll with a transmit budget of 0..3 frames); frames are delivered in drawn orders with drawn duplications, chunking and time gaps (all permutations x single duplications for <= 4 fragments in the exhaustive phase); oracles: independent decoder reconstructs exactly the datagram that was sent (checksums valid, <=127 octets per frame, FRAG offsets/sizes/tags consistent), receiver sockets deliver exactly what a reference reassembler model says must complete (never twice, never anything else), same deliveries as the raw-IP twin; independent IPHC encoder feeds the receiver in every legal stateless/stateful mode; adversarial FRAG1/FRAGN/IPHC/NHC frames must not panic; non-trivial = a datagram delivered whose (protocol, source class, destination class, port class, hop-limit class, fragment-count bucket) tuple is fed to the digest together with its sizes",
        assumptions: vec![
            "independent 802.15.4 / RFC 4944 / RFC 6282 codec in vcheck/src/c20_lowpan.rs and IPv6/UDP/ICMPv6/TCP codec in vkit::indep",
            "frames handed to the device carry no FCS: 'fits an 802.15.4 frame' is asserted as <= 125 octets (aMaxPHYPacketSize 127 minus the 2-octet FCS)",
            "reference reassembler: REASSEMBLY_BUFFER_COUNT datagrams in progress, ASSEMBLER_MAX_SEGMENT_COUNT disjoint ranges per datagram, the timeout the interface reports (reassembly_timeout(), 60 s by default) from the first fragment seen; a datagram must be delivered iff this model completes it",
            "the channel never duplicates every fragment of a datagram nor an unfragmented frame, so 'at most once' is well defined",
            "datagrams longer than 2047 octets cannot be expressed in RFC 4944 fragment headers: nothing may be delivered and nothing undecodable may be emitted for them",
            "neighbour discovery frames flow in order without faults",
        ],
    }
}
