//! C14 - ring and packet buffers are faithful bounded FIFO queues.
//!
//! Oracle: VecDeque model. Random op sequences over capacities 0..=4096 and an
//! exhaustive enumeration of all op sequences of bounded depth over a small op
//! alphabet for small capacities.

use serde_json::json;
use smoltcp::storage::{PacketBuffer, PacketMetadata, RingBuffer};
use std::collections::VecDeque;
use vkit::runner::{Fail, Part, PhaseResult, Prop, RunEnv, Tier};
use vkit::{vensure, Ctx, Src};

// ------------------------------------------------------------------ ring buffer

#[derive(Clone, Debug)]
enum ROp {
    EnqOneWith(bool),
    EnqOne,
    DeqOneWith(bool),
    DeqOne,
    EnqManyWith(usize),
    EnqMany(usize),
    EnqSlice(usize),
    DeqManyWith(usize),
    DeqMany(usize),
    DeqSlice(usize),
    GetUnalloc(usize, usize),
    WriteUnalloc(usize, usize),
    EnqUnalloc(usize),
    GetAlloc(usize, usize),
    ReadAlloc(usize, usize),
    DeqAlloc(usize),
    Clear,
}

struct RingModel {
    cap: usize,
    q: VecDeque<u16>,
    /// contents written into the unallocated area, by offset past the tail;
    /// None = unknown/don't care
    pending: Vec<Option<u16>>,
    next: u16,
    wrapped: bool,
    total_enq: usize,
}

impl RingModel {
    fn new(cap: usize) -> RingModel {
        RingModel {
            cap,
            q: VecDeque::new(),
            pending: vec![None; cap],
            next: 1,
            wrapped: false,
            total_enq: 0,
        }
    }
    fn window(&self) -> usize {
        self.cap - self.q.len()
    }
    fn fresh(&mut self) -> u16 {
        let v = self.next;
        self.next = self.next.wrapping_add(1);
        if self.next == 0 {
            self.next = 1;
        }
        v
    }
    fn push(&mut self, v: u16) {
        self.q.push_back(v);
        self.total_enq += 1;
        if self.cap > 0 && self.total_enq > self.cap {
            self.wrapped = true;
        }
        // the unallocated area shifts by one
        if !self.pending.is_empty() {
            self.pending.remove(0);
            self.pending.push(None);
        }
    }
    fn invalidate_pending(&mut self) {
        for p in self.pending.iter_mut() {
            *p = None;
        }
    }
}

fn check_obs(r: &RingBuffer<'_, u16>, m: &RingModel, after: &ROp) -> Result<(), Fail> {
    vensure!(r.len() == m.q.len(), "ring:len", "after {:?}: len {} model {}", after, r.len(), m.q.len());
    vensure!(r.capacity() == m.cap, "ring:capacity", "capacity {} model {}", r.capacity(), m.cap);
    vensure!(r.window() == m.window(), "ring:window", "after {:?}: window {} model {}", after, r.window(), m.window());
    vensure!(r.is_empty() == m.q.is_empty(), "ring:is_empty", "after {:?}", after);
    vensure!(r.is_full() == (m.window() == 0), "ring:is_full", "after {:?}", after);
    vensure!(r.len() <= m.cap, "ring:over-capacity", "len {} cap {}", r.len(), m.cap);
    let cw = r.contiguous_window();
    vensure!(cw <= m.window(), "ring:contig-window-too-big", "after {:?}: contiguous_window {} window {}", after, cw, m.window());
    vensure!(m.window() == 0 || cw > 0, "ring:contig-window-zero", "after {:?}: contiguous_window 0 with window {}", after, m.window());
    Ok(())
}

fn apply_ring(r: &mut RingBuffer<'_, u16>, m: &mut RingModel, op: &ROp) -> Result<(), Fail> {
    match *op {
        ROp::EnqOneWith(ok) => {
            let v = m.fresh();
            let res = r.enqueue_one_with(|slot| {
                *slot = v;
                if ok { Ok(()) } else { Err(()) }
            });
            if m.window() == 0 {
                vensure!(res.is_err(), "ring:enqueue_one_with-full", "accepted on full buffer");
            } else {
                vensure!(res.is_ok(), "ring:enqueue_one_with-refused", "refused with window {}", m.window());
                if ok {
                    m.push(v);
                } else {
                    // slot was written but not enqueued
                    if !m.pending.is_empty() {
                        m.pending[0] = Some(v);
                    }
                }
            }
        }
        ROp::EnqOne => {
            let v = m.fresh();
            match r.enqueue_one() {
                Ok(slot) => {
                    vensure!(m.window() > 0, "ring:enqueue_one-full", "accepted on full buffer");
                    *slot = v;
                    m.push(v);
                }
                Err(_) => {
                    vensure!(m.window() == 0, "ring:enqueue_one-refused", "refused with window {}", m.window());
                }
            }
        }
        ROp::DeqOneWith(ok) => {
            let mut seen = None;
            let res = r.dequeue_one_with(|slot| {
                seen = Some(*slot);
                if ok { Ok(()) } else { Err(()) }
            });
            match m.q.front().copied() {
                None => vensure!(res.is_err(), "ring:dequeue_one_with-empty", "returned element from empty buffer"),
                Some(exp) => {
                    vensure!(res.is_ok(), "ring:dequeue_one_with-refused", "Empty on non-empty buffer");
                    vensure!(seen == Some(exp), "ring:dequeue_one_with-value", "got {:?} expected {}", seen, exp);
                    if ok {
                        m.q.pop_front();
                    }
                }
            }
        }
        ROp::DeqOne => match r.dequeue_one() {
            Ok(slot) => {
                let exp = m.q.pop_front();
                vensure!(exp == Some(*slot), "ring:dequeue_one-value", "got {} expected {:?}", *slot, exp);
            }
            Err(_) => vensure!(m.q.is_empty(), "ring:dequeue_one-refused", "Empty on non-empty buffer"),
        },
        ROp::EnqManyWith(want) => {
            let win = m.window();
            let mut vals = vec![];
            let (n, buflen) = r.enqueue_many_with(|buf| {
                let n = want.min(buf.len());
                for slot in buf[..n].iter_mut() {
                    let v = m.fresh();
                    *slot = v;
                    vals.push(v);
                }
                (n, buf.len())
            });
            vensure!(buflen <= win, "ring:enqueue_many_with-slice-too-big", "slice {} window {}", buflen, win);
            vensure!(win == 0 || buflen > 0, "ring:enqueue_many_with-empty-slice", "empty slice with window {}", win);
            vensure!(n == vals.len(), "ring:enqueue_many_with-count", "");
            m.invalidate_pending();
            for v in vals {
                m.push(v);
            }
        }
        ROp::EnqMany(size) => {
            let win = m.window();
            let mut vals = vec![];
            {
                let buf = r.enqueue_many(size);
                vensure!(buf.len() <= size.min(win), "ring:enqueue_many-too-big", "slice {} size {} window {}", buf.len(), size, win);
                vensure!(size.min(win) == 0 || !buf.is_empty(), "ring:enqueue_many-empty", "empty slice size {} window {}", size, win);
                for slot in buf.iter_mut() {
                    let v = m.fresh();
                    *slot = v;
                    vals.push(v);
                }
            }
            m.invalidate_pending();
            for v in vals {
                m.push(v);
            }
        }
        ROp::EnqSlice(len) => {
            let win = m.window();
            let data: Vec<u16> = (0..len).map(|_| m.fresh()).collect();
            let n = r.enqueue_slice(&data);
            vensure!(n == len.min(win), "ring:enqueue_slice-count", "enqueued {} of {} with window {}", n, len, win);
            m.invalidate_pending();
            for v in &data[..n] {
                m.push(*v);
            }
        }
        ROp::DeqManyWith(want) => {
            let len = m.q.len();
            let mut got = vec![];
            let (n, buflen) = r.dequeue_many_with(|buf| {
                let n = want.min(buf.len());
                got.extend_from_slice(&buf[..n]);
                (n, buf.len())
            });
            vensure!(buflen <= len, "ring:dequeue_many_with-slice-too-big", "slice {} len {}", buflen, len);
            vensure!(len == 0 || buflen > 0, "ring:dequeue_many_with-empty-slice", "empty slice with len {}", len);
            vensure!(n == got.len(), "ring:dequeue_many_with-count", "");
            for g in got {
                let exp = m.q.pop_front();
                vensure!(exp == Some(g), "ring:dequeue_many_with-value", "got {} expected {:?}", g, exp);
            }
        }
        ROp::DeqMany(size) => {
            let len = m.q.len();
            let got: Vec<u16> = r.dequeue_many(size).to_vec();
            vensure!(got.len() <= size.min(len), "ring:dequeue_many-too-big", "slice {} size {} len {}", got.len(), size, len);
            vensure!(size.min(len) == 0 || !got.is_empty(), "ring:dequeue_many-empty", "empty slice size {} len {}", size, len);
            for g in got {
                let exp = m.q.pop_front();
                vensure!(exp == Some(g), "ring:dequeue_many-value", "got {} expected {:?}", g, exp);
            }
        }
        ROp::DeqSlice(size) => {
            let len = m.q.len();
            let mut out = vec![0u16; size];
            let n = r.dequeue_slice(&mut out);
            vensure!(n == size.min(len), "ring:dequeue_slice-count", "dequeued {} size {} len {}", n, size, len);
            for g in &out[..n] {
                let exp = m.q.pop_front();
                vensure!(exp == Some(*g), "ring:dequeue_slice-value", "got {} expected {:?}", g, exp);
            }
        }
        ROp::GetUnalloc(off, size) => {
            let win = m.window();
            let avail = if off <= win { (win - off).min(size) } else { 0 };
            let mut vals = vec![];
            {
                let buf = r.get_unallocated(off, size);
                vensure!(buf.len() <= avail, "ring:get_unallocated-too-big", "slice {} off {} size {} window {}", buf.len(), off, size, win);
                vensure!(avail == 0 || !buf.is_empty(), "ring:get_unallocated-empty", "empty slice off {} size {} window {}", off, size, win);
                for slot in buf.iter_mut() {
                    let v = m.fresh();
                    *slot = v;
                    vals.push(v);
                }
            }
            for (i, v) in vals.into_iter().enumerate() {
                m.pending[off + i] = Some(v);
            }
        }
        ROp::WriteUnalloc(off, len) => {
            let win = m.window();
            let avail = if off <= win { (win - off).min(len) } else { 0 };
            let data: Vec<u16> = (0..len).map(|_| m.fresh()).collect();
            let n = r.write_unallocated(off, &data);
            vensure!(n == avail, "ring:write_unallocated-count", "wrote {} of {} at offset {} window {}", n, len, off, win);
            for i in 0..n {
                m.pending[off + i] = Some(data[i]);
            }
        }
        ROp::EnqUnalloc(count) => {
            let count = count.min(m.window()); // asserted precondition
            r.enqueue_unallocated(count);
            let vals: Vec<Option<u16>> = m.pending[..count].to_vec();
            for v in vals {
                // unknown contents get a wildcard (0 is never produced by fresh())
                m.push(v.unwrap_or(0));
            }
        }
        ROp::GetAlloc(off, size) => {
            let len = m.q.len();
            let avail = if off <= len { (len - off).min(size) } else { 0 };
            let buf = r.get_allocated(off, size);
            vensure!(buf.len() <= avail, "ring:get_allocated-too-big", "slice {} off {} size {} len {}", buf.len(), off, size, len);
            vensure!(avail == 0 || !buf.is_empty(), "ring:get_allocated-empty", "empty slice off {} size {} len {}", off, size, len);
            for (i, g) in buf.iter().enumerate() {
                let exp = m.q[off + i];
                vensure!(exp == 0 || exp == *g, "ring:get_allocated-value", "at {} got {} expected {}", off + i, g, exp);
            }
        }
        ROp::ReadAlloc(off, size) => {
            let len = m.q.len();
            let avail = if off <= len { (len - off).min(size) } else { 0 };
            let mut out = vec![0u16; size];
            let n = r.read_allocated(off, &mut out);
            vensure!(n == avail, "ring:read_allocated-count", "read {} off {} size {} len {}", n, off, size, len);
            for i in 0..n {
                let exp = m.q[off + i];
                vensure!(exp == 0 || exp == out[i], "ring:read_allocated-value", "at {} got {} expected {}", off + i, out[i], exp);
            }
        }
        ROp::DeqAlloc(count) => {
            let count = count.min(m.q.len());
            r.dequeue_allocated(count);
            for _ in 0..count {
                m.q.pop_front();
            }
        }
        ROp::Clear => {
            r.clear();
            m.q.clear();
            m.invalidate_pending();
        }
    }
    Ok(())
}

// wildcard handling: model values of 0 mean "unknown"; dequeue comparisons above
// use exact equality, so make unknown values concrete by reading them back.
fn resolve_unknown(r: &RingBuffer<'_, u16>, m: &mut RingModel) {
    if m.q.iter().any(|v| *v == 0) {
        for i in 0..m.q.len() {
            if m.q[i] == 0 {
                let s = r.get_allocated(i, 1);
                if let Some(v) = s.first() {
                    m.q[i] = *v;
                }
            }
        }
    }
}

fn gen_rop(src: &mut Src, cap: usize) -> ROp {
    let k = |src: &mut Src| -> usize {
        match src.weighted(&[3, 3, 1]) {
            0 => src.usize(0, 4),
            1 => src.usize(0, cap + 1),
            _ => src.usize(0, 2 * cap + 2),
        }
    };
    match src.draw(16) {
        0 => ROp::EnqSlice(k(src)),
        1 => ROp::DeqSlice(k(src)),
        2 => ROp::EnqOneWith(src.chance(3, 4)),
        3 => ROp::EnqOne,
        4 => ROp::DeqOneWith(src.chance(3, 4)),
        5 => ROp::DeqOne,
        6 => ROp::EnqManyWith(k(src)),
        7 => ROp::EnqMany(k(src)),
        8 => ROp::DeqManyWith(k(src)),
        9 => ROp::DeqMany(k(src)),
        10 => ROp::GetUnalloc(k(src), k(src)),
        11 => ROp::WriteUnalloc(k(src), k(src)),
        12 => ROp::EnqUnalloc(k(src)),
        13 => ROp::GetAlloc(k(src), k(src)),
        14 => ROp::ReadAlloc(k(src), k(src)),
        15 => ROp::DeqAlloc(k(src)),
        _ => ROp::Clear,
    }
}

fn run_ring_ops(cap: usize, ops: &[ROp], ctx: &mut Ctx) -> Result<(), Fail> {
    let mut r = RingBuffer::new(vec![0u16; cap]);
    let mut m = RingModel::new(cap);
    for op in ops {
        ctx.note(|| format!("{:?}", op));
        apply_ring(&mut r, &mut m, op)?;
        resolve_unknown(&r, &mut m);
        check_obs(&r, &m, op)?;
    }
    // final drain: everything still queued comes out in order
    let mut out = vec![0u16; m.q.len() + 1];
    let n = r.dequeue_slice(&mut out);
    vensure!(n == m.q.len(), "ring:final-drain-count", "drained {} model {}", n, m.q.len());
    for i in 0..n {
        vensure!(out[i] == m.q[i], "ring:final-drain-value", "at {} got {} expected {}", i, out[i], m.q[i]);
    }
    if m.wrapped {
        ctx.nontrivial = true;
        ctx.label("ring:wrapped");
    }
    Ok(())
}

fn ring_random(src: &mut Src, ctx: &mut Ctx) -> Result<(), Fail> {
    let cap = match src.weighted(&[4, 3, 1]) {
        0 => src.usize(0, 8),
        1 => src.usize(0, 64),
        _ => src.usize(0, 4096),
    };
    let mut ops = vec![];
    let maxops = 200;
    while ops.len() < maxops && src.more(29, 30) {
        ops.push(gen_rop(src, cap));
    }
    ctx.note(|| format!("ring capacity {}", cap));
    ctx.digest.u64(cap as u64);
    ctx.digest.str(&format!("{:?}", ops));
    if cap == 0 {
        ctx.label("ring:cap0");
    }
    run_ring_ops(cap, &ops, ctx)
}

const RING_SMALL: &[ROp] = &[
    ROp::EnqSlice(1),
    ROp::EnqSlice(2),
    ROp::EnqSlice(3),
    ROp::DeqSlice(1),
    ROp::DeqSlice(2),
    ROp::DeqSlice(3),
    ROp::EnqMany(2),
    ROp::DeqMany(2),
    ROp::EnqOne,
    ROp::DeqOne,
    ROp::EnqOneWith(false),
    ROp::DeqOneWith(false),
    ROp::WriteUnalloc(0, 2),
    ROp::WriteUnalloc(1, 2),
    ROp::EnqUnalloc(1),
    ROp::EnqUnalloc(2),
    ROp::ReadAlloc(0, 3),
    ROp::ReadAlloc(1, 2),
    ROp::DeqAlloc(1),
    ROp::DeqAlloc(2),
    ROp::EnqManyWith(1),
    ROp::DeqManyWith(1),
    ROp::Clear,
];

/// replayable form of one enumerated small case: [cap, depth, op indices...]
fn ring_small(src: &mut Src, ctx: &mut Ctx) -> Result<(), Fail> {
    let cap = src.usize(0, 8);
    let depth = src.usize(0, 8);
    let mut ops = vec![];
    for _ in 0..depth {
        ops.push(RING_SMALL[src.usize(0, RING_SMALL.len() - 1)].clone());
    }
    ctx.note(|| format!("ring capacity {}", cap));
    ctx.digest.u64(cap as u64);
    ctx.digest.str(&format!("{:?}", ops));
    run_ring_ops(cap, &ops, ctx)
}

fn enumerate<F: FnMut(&[usize]) -> bool>(alpha: usize, depth: usize, mut f: F) {
    // all sequences of exactly `depth` symbols; f returns false to stop
    let mut idx = vec![0usize; depth];
    loop {
        if !f(&idx) {
            return;
        }
        let mut i = depth;
        loop {
            if i == 0 {
                return;
            }
            i -= 1;
            idx[i] += 1;
            if idx[i] < alpha {
                break;
            }
            idx[i] = 0;
            if i == 0 {
                return;
            }
        }
    }
}

fn ring_exhaustive(env: &RunEnv) -> PhaseResult {
    let depth = if env.tier == Tier::Quick { 4 } else { 5 };
    let maxcap = if env.tier == Tier::Quick { 4 } else { 5 };
    let results: Vec<(u64, u64, Vec<(String, Vec<u64>, Fail)>)> = std::thread::scope(|s| {
        let hs: Vec<_> = (0..=maxcap)
            .map(|cap| {
                s.spawn(move || {
                    vkit::runner::set_quiet(true);
                    let none = std::sync::Arc::new(vec![]);
                    let mut evals = 0u64;
                    let mut nt = 0u64;
                    let mut fails = vec![];
                    for d in 0..=depth {
                        enumerate(RING_SMALL.len(), d, |idx| {
                            let ops: Vec<ROp> = idx.iter().map(|i| RING_SMALL[*i].clone()).collect();
                            let mut ctx = Ctx::new(false, none.clone(), true);
                            evals += 1;
                            let r = vkit::runner::guarded(|| run_ring_ops(cap, &ops, &mut ctx));
                            let fail = match r {
                                Ok(Ok(())) => None,
                                Ok(Err(f)) => Some(f),
                                Err(p) => Some(Fail::new(vkit::runner::panic_key(&p), format!("panic at {}:{}: {}", p.file, p.line, p.msg))),
                            };
                            if ctx.nontrivial {
                                nt += 1;
                            }
                            if let Some(f) = fail {
                                let mut tape = vec![cap as u64, d as u64];
                                tape.extend(idx.iter().map(|i| *i as u64));
                                fails.push(("ring_small".to_string(), tape, f));
                                return fails.len() < 5;
                            }
                            true
                        });
                    }
                    (evals, nt, fails)
                })
            })
            .collect();
        hs.into_iter().map(|h| h.join().unwrap()).collect()
    });
    let mut pr = PhaseResult {
        name: format!("ring: all op sequences over {} ops, depth<={}, capacity 0..={}", RING_SMALL.len(), depth, maxcap),
        exhaustive: true,
        ..Default::default()
    };
    for (e, n, f) in results {
        pr.evaluations += e;
        pr.nontrivial += n;
        pr.failures.extend(f);
    }
    pr.extra = json!({"alphabet": RING_SMALL.len(), "depth": depth, "max_capacity": maxcap});
    pr.samples.push(json!({"phase": "ring exhaustive", "example_sequence": format!("{:?}", &RING_SMALL[..4])}));
    pr
}

// ------------------------------------------------------------------ packet buffer

#[derive(Clone, Debug)]
enum POp {
    Enqueue(usize),
    /// (max_size, returned size)
    EnqueueWith(usize, usize),
    Dequeue,
    DequeueWith(bool),
    Peek,
    /// drain everything, then require that a full-capacity packet is accepted
    DrainAndFill(bool),
}

struct PModel {
    meta_cap: usize,
    pay_cap: usize,
    q: VecDeque<(u32, Vec<u8>)>,
    next: u32,
    total_bytes: usize,
    wrapped: bool,
    refused_after_padding_possible: bool,
}

fn fill(tag: u32, n: usize) -> Vec<u8> {
    (0..n).map(|i| (tag as usize * 31 + i * 7 + 1) as u8).collect()
}

fn pbuf_check_obs(b: &PacketBuffer<'_, u32>, m: &PModel, after: &POp) -> Result<(), Fail> {
    vensure!(b.packet_capacity() == m.meta_cap, "pbuf:packet_capacity", "");
    vensure!(b.payload_capacity() == m.pay_cap, "pbuf:payload_capacity", "");
    vensure!(
        b.is_empty() == m.q.is_empty(),
        "pbuf:is_empty",
        "after {:?}: is_empty()={} but model holds {} packets",
        after,
        b.is_empty(),
        m.q.len()
    );
    vensure!(b.payload_bytes_count() <= m.pay_cap, "pbuf:over-capacity", "");
    let model_bytes: usize = m.q.iter().map(|p| p.1.len()).sum();
    vensure!(
        b.payload_bytes_count() >= model_bytes,
        "pbuf:bytes-count-too-small",
        "payload_bytes_count {} < queued payload {}",
        b.payload_bytes_count(),
        model_bytes
    );
    if m.q.len() == m.meta_cap {
        vensure!(b.is_full(), "pbuf:is_full", "after {:?}: {} packets queued in {} slots but not full", after, m.q.len(), m.meta_cap);
    }
    Ok(())
}

fn apply_pbuf(b: &mut PacketBuffer<'_, u32>, m: &mut PModel, op: &POp, ctx: &mut Ctx) -> Result<(), Fail> {
    match *op {
        POp::Enqueue(size) => {
            let tag = m.next;
            m.next += 1;
            let was_empty = m.q.is_empty();
            match b.enqueue(size, tag) {
                Ok(buf) => {
                    vensure!(buf.len() == size, "pbuf:enqueue-size", "slice {} for size {}", buf.len(), size);
                    vensure!(m.q.len() < m.meta_cap, "pbuf:enqueue-over-meta", "accepted beyond metadata capacity");
                    let data = fill(tag, size);
                    buf.copy_from_slice(&data);
                    m.q.push_back((tag, data));
                    m.total_bytes += size;
                    if m.pay_cap > 0 && m.total_bytes > m.pay_cap {
                        m.wrapped = true;
                    }
                }
                Err(_) => {
                    if was_empty && size <= m.pay_cap && m.meta_cap >= 1 {
                        return Err(Fail::new(
                            "pbuf:enqueue:empty-buffer-refuses",
                            format!("empty buffer (meta {}, payload {}) refused enqueue({})", m.meta_cap, m.pay_cap, size),
                        ));
                    }
                    ctx.label("pbuf:refused");
                }
            }
        }
        POp::EnqueueWith(max, ret) => {
            let tag = m.next;
            m.next += 1;
            let ret = ret.min(max);
            let was_empty = m.q.is_empty();
            let mut seen_len = None;
            let data = fill(tag, ret);
            let res = b.enqueue_with_infallible(max, tag, |buf| {
                seen_len = Some(buf.len());
                buf[..ret].copy_from_slice(&data);
                ret
            });
            match res {
                Ok(n) => {
                    vensure!(n == ret, "pbuf:enqueue_with-size", "returned {} expected {}", n, ret);
                    vensure!(seen_len == Some(max), "pbuf:enqueue_with-slice", "closure saw {:?}, max {}", seen_len, max);
                    vensure!(m.q.len() < m.meta_cap, "pbuf:enqueue_with-over-meta", "accepted beyond metadata capacity");
                    m.q.push_back((tag, data));
                    m.total_bytes += ret;
                    if m.pay_cap > 0 && m.total_bytes > m.pay_cap {
                        m.wrapped = true;
                    }
                }
                Err(_) => {
                    vensure!(seen_len.is_none(), "pbuf:enqueue_with-called-then-refused", "closure ran but enqueue refused");
                    if was_empty && max <= m.pay_cap && m.meta_cap >= 1 {
                        return Err(Fail::new(
                            "pbuf:enqueue_with_infallible:empty-buffer-refuses",
                            format!("empty buffer (meta {}, payload {}) refused enqueue_with_infallible({})", m.meta_cap, m.pay_cap, max),
                        ));
                    }
                    ctx.label("pbuf:refused");
                }
            }
        }
        POp::Dequeue => match b.dequeue() {
            Ok((h, p)) => {
                let exp = m.q.pop_front();
                match exp {
                    None => return Err(Fail::new("pbuf:dequeue-from-empty", format!("got packet {} from empty model", h))),
                    Some((t, d)) => {
                        vensure!(t == h && d == p, "pbuf:dequeue-value", "got ({}, {} bytes) expected ({}, {} bytes)", h, p.len(), t, d.len());
                    }
                }
            }
            Err(_) => vensure!(m.q.is_empty(), "pbuf:dequeue-refused", "Empty with {} packets queued", m.q.len()),
        },
        POp::DequeueWith(accept) => {
            let mut seen: Option<(u32, Vec<u8>)> = None;
            let res = b.dequeue_with(|h, p| {
                seen = Some((*h, p.to_vec()));
                if accept { Ok(()) } else { Err(()) }
            });
            match m.q.front().cloned() {
                None => vensure!(res.is_err() && seen.is_none(), "pbuf:dequeue_with-from-empty", "callback ran on empty model"),
                Some(exp) => {
                    vensure!(res.is_ok(), "pbuf:dequeue_with-refused", "Empty with {} packets queued", m.q.len());
                    vensure!(seen.as_ref() == Some(&exp), "pbuf:dequeue_with-value", "got {:?} expected tag {}", seen.map(|s| (s.0, s.1.len())), exp.0);
                    vensure!(res.unwrap().is_ok() == accept, "pbuf:dequeue_with-result", "");
                    if accept {
                        m.q.pop_front();
                    }
                }
            }
        }
        POp::Peek => match b.peek() {
            Ok((h, p)) => match m.q.front() {
                None => return Err(Fail::new("pbuf:peek-from-empty", format!("peeked packet {} from empty model", h))),
                Some((t, d)) => {
                    vensure!(t == h && d.as_slice() == p, "pbuf:peek-value", "got ({}, {} bytes) expected ({}, {} bytes)", h, p.len(), t, d.len());
                }
            },
            Err(_) => vensure!(m.q.is_empty(), "pbuf:peek-refused", "Empty with {} packets queued", m.q.len()),
        },
        POp::DrainAndFill(with) => {
            while let Some(exp) = m.q.pop_front() {
                match b.dequeue() {
                    Ok((h, p)) => vensure!(h == exp.0 && p == exp.1.as_slice(), "pbuf:drain-value", "got {} expected {}", h, exp.0),
                    Err(_) => return Err(Fail::new("pbuf:drain-refused", "Empty while model still holds packets")),
                }
            }
            vensure!(b.dequeue().is_err(), "pbuf:drain-extra", "packet after model drained");
            if m.meta_cap >= 1 {
                ctx.label("pbuf:drain-and-fill");
                let op2 = if with { POp::EnqueueWith(m.pay_cap, m.pay_cap) } else { POp::Enqueue(m.pay_cap) };
                apply_pbuf(b, m, &op2, ctx)?;
            }
        }
    }
    let _ = m.refused_after_padding_possible;
    Ok(())
}

fn run_pbuf_ops(meta: usize, pay: usize, ops: &[POp], ctx: &mut Ctx) -> Result<(), Fail> {
    let mut b: PacketBuffer<'_, u32> = PacketBuffer::new(vec![PacketMetadata::EMPTY; meta], vec![0u8; pay]);
    let mut m = PModel {
        meta_cap: meta,
        pay_cap: pay,
        q: VecDeque::new(),
        next: 1,
        total_bytes: 0,
        wrapped: false,
        refused_after_padding_possible: false,
    };
    for op in ops {
        ctx.note(|| format!("{:?}", op));
        apply_pbuf(&mut b, &mut m, op, ctx)?;
        pbuf_check_obs(&b, &m, op)?;
    }
    // final: full drain compares with the model
    let fin = POp::DrainAndFill(false);
    while let Some(exp) = m.q.pop_front() {
        match b.dequeue() {
            Ok((h, p)) => vensure!(h == exp.0 && p == exp.1.as_slice(), "pbuf:final-drain-value", "got {} expected {}", h, exp.0),
            Err(_) => return Err(Fail::new("pbuf:final-drain-refused", "Empty while model still holds packets")),
        }
    }
    vensure!(b.dequeue().is_err(), "pbuf:final-drain-extra", "packet after model drained");
    pbuf_check_obs(&b, &m, &fin)?;
    if m.wrapped {
        ctx.nontrivial = true;
        ctx.label("pbuf:wrapped");
    }
    Ok(())
}

fn gen_pop(src: &mut Src, pay: usize) -> POp {
    let sz = |src: &mut Src| -> usize {
        match src.weighted(&[3, 3, 2, 1]) {
            0 => src.usize(0, 4.min(pay + 1)),
            1 => src.usize(0, pay + 1),
            2 => pay - src.usize(0, pay.min(2)),
            _ => src.usize(0, pay / 2 + 1),
        }
    };
    match src.weighted(&[5, 5, 4, 3, 2, 1]) {
        0 => POp::Enqueue(sz(src)),
        1 => {
            let max = sz(src);
            let ret = if src.bool() { max } else { src.usize(0, max) };
            POp::EnqueueWith(max, ret)
        }
        2 => POp::Dequeue,
        3 => POp::DequeueWith(src.chance(3, 4)),
        4 => POp::Peek,
        _ => POp::DrainAndFill(src.bool()),
    }
}

fn pbuf_random(src: &mut Src, ctx: &mut Ctx) -> Result<(), Fail> {
    let meta = match src.weighted(&[3, 1]) {
        0 => src.usize(0, 8),
        _ => src.usize(0, 64),
    };
    let pay = match src.weighted(&[4, 3, 1]) {
        0 => src.usize(0, 16),
        1 => src.usize(0, 128),
        _ => src.usize(0, 4096),
    };
    let mut ops = vec![];
    while ops.len() < 200 && src.more(29, 30) {
        ops.push(gen_pop(src, pay));
    }
    ctx.note(|| format!("packet buffer: {} metadata slots, {} payload bytes", meta, pay));
    ctx.digest.u64(meta as u64);
    ctx.digest.u64(pay as u64);
    ctx.digest.str(&format!("{:?}", ops));
    run_pbuf_ops(meta, pay, &ops, ctx)
}

fn pbuf_small_alphabet(pay: usize) -> Vec<POp> {
    let mut a = vec![POp::Dequeue, POp::DequeueWith(true), POp::DequeueWith(false), POp::Peek, POp::DrainAndFill(false), POp::DrainAndFill(true)];
    for s in 0..=(pay + 1).min(5) {
        a.push(POp::Enqueue(s));
    }
    for s in 1..=pay.min(5) {
        a.push(POp::EnqueueWith(s, s));
        if s > 1 {
            a.push(POp::EnqueueWith(s, 1));
        }
    }
    a
}

/// replayable form: [meta, pay, depth, op indices ...]
fn pbuf_small(src: &mut Src, ctx: &mut Ctx) -> Result<(), Fail> {
    let meta = src.usize(0, 8);
    let pay = src.usize(0, 8);
    let depth = src.usize(0, 8);
    let alpha = pbuf_small_alphabet(pay);
    let mut ops = vec![];
    for _ in 0..depth {
        ops.push(alpha[src.usize(0, alpha.len() - 1)].clone());
    }
    ctx.note(|| format!("packet buffer: {} metadata slots, {} payload bytes", meta, pay));
    ctx.digest.u64(meta as u64);
    ctx.digest.u64(pay as u64);
    ctx.digest.str(&format!("{:?}", ops));
    run_pbuf_ops(meta, pay, &ops, ctx)
}

fn pbuf_exhaustive(env: &RunEnv) -> PhaseResult {
    let depth = if env.tier == Tier::Quick { 4 } else { 5 };
    let mut geoms = vec![];
    for meta in 0..=3usize {
        for pay in 0..=(if env.tier == Tier::Quick { 4usize } else { 5 }) {
            geoms.push((meta, pay));
        }
    }
    let known = env.known_open.clone();
    let results: Vec<(u64, u64, u64, Vec<(String, Vec<u64>, Fail)>)> = std::thread::scope(|s| {
        let hs: Vec<_> = geoms
            .iter()
            .map(|&(meta, pay)| {
                let known = known.clone();
                s.spawn(move || {
                    vkit::runner::set_quiet(true);
                    let alpha = pbuf_small_alphabet(pay);
                    let mut evals = 0u64;
                    let mut nt = 0u64;
                    let mut excluded = 0u64;
                    let mut fails: Vec<(String, Vec<u64>, Fail)> = vec![];
                    for d in 0..=depth {
                        enumerate(alpha.len(), d, |idx| {
                            let ops: Vec<POp> = idx.iter().map(|i| alpha[*i].clone()).collect();
                            let mut ctx = Ctx::new(false, known.clone(), false);
                            evals += 1;
                            let r = vkit::runner::guarded(|| run_pbuf_ops(meta, pay, &ops, &mut ctx));
                            let fail = match r {
                                Ok(Ok(())) => None,
                                Ok(Err(f)) => Some(f),
                                Err(p) => Some(Fail::new(vkit::runner::panic_key(&p), format!("panic at {}:{}: {}", p.file, p.line, p.msg))),
                            };
                            if ctx.nontrivial {
                                nt += 1;
                            }
                            if let Some(f) = fail {
                                if ctx.is_known(&f.key) {
                                    excluded += 1;
                                    return true;
                                }
                                // keep the first (shortest) failure per key
                                if !fails.iter().any(|x| x.2.key == f.key) {
                                    let mut tape = vec![meta as u64, pay as u64, d as u64];
                                    tape.extend(idx.iter().map(|i| *i as u64));
                                    fails.push(("pbuf_small".to_string(), tape, f));
                                }
                                return fails.len() < 8;
                            }
                            true
                        });
                    }
                    (evals, nt, excluded, fails)
                })
            })
            .collect();
        hs.into_iter().map(|h| h.join().unwrap()).collect()
    });
    let mut pr = PhaseResult {
        name: format!("packet buffer: all op sequences depth<={} over metadata 0..=3 x payload 0..={}", depth, geoms.last().unwrap().1),
        exhaustive: true,
        ..Default::default()
    };
    let mut excluded = 0;
    for (e, n, x, f) in results {
        pr.evaluations += e;
        pr.nontrivial += n;
        excluded += x;
        pr.failures.extend(f);
    }
    // shortest tape first so that the reported one is minimal
    pr.failures.sort_by_key(|f| (f.1.len(), f.1.clone()));
    pr.extra = json!({"depth": depth, "geometries": geoms.len(), "excluded_known": excluded});
    pr.samples.push(json!({"phase": "pbuf exhaustive", "alphabet_for_payload_4": format!("{:?}", pbuf_small_alphabet(4))}));
    pr
}

pub fn prop() -> Prop {
    Prop {
        id: "C14",
        parts: vec![
            Part { name: "ring_random", case: ring_random, quick: 60_000, thorough: 3_000_000 },
            Part { name: "pbuf_random", case: pbuf_random, quick: 60_000, thorough: 3_000_000 },
            Part { name: "ring_small", case: ring_small, quick: 20_000, thorough: 200_000 },
            Part { name: "pbuf_small", case: pbuf_small, quick: 20_000, thorough: 200_000 },
        ],
        phases: vec![ring_exhaustive, pbuf_exhaustive],
        smoltcp_panic_is_violation: true,
        rule: "random op sequences (<=200 ops) on RingBuffer<u16>/PacketBuffer<u32> with capacities 0..=4096 checked against a VecDeque model after every op, plus exhaustive enumeration of all sequences up to a fixed depth over a small op alphabet for small capacities; a case is non-trivial when the cumulative enqueued amount exceeded the capacity (the write position wrapped); distinct by digest of (capacity, op sequence)",
        assumptions: vec![
            "operations are called within their documented/asserted preconditions (enqueue_unallocated <= window, dequeue_allocated <= len, closures return <= slice length)",
            "contents of the unallocated area are only compared when written through get/write_unallocated since the last enqueue_*/clear",
        ],
    }
}
