//! C07 - checked packet views never panic on arbitrary bytes.
//!
//! For every Packet/Frame/Header/Option view type exported by `smoltcp::wire`
//! one part generates byte strings (random / truncated valid packet / valid
//! packet with boundary-valued fields), builds the checked view and, when that
//! succeeds, calls every read accessor that applies to the packet's own message
//! type, the matching `Repr::parse`, the payload accessor, `Display` and the
//! pretty printer. Each call into smoltcp runs under `guarded`, a panic is a
//! failure keyed by `panic_key`.
//!
//! Accessor applicability (derived from the accessor docs and from what
//! smoltcp's own `Repr::parse` / iface code call):
//!  * Icmpv4/Icmpv6 `echo_*` only for echo request/reply; `pkt_too_big_mtu`
//!    only for PktTooBig; `param_problem_ptr` only for ParamProblem; the NDISC
//!    getters only for the NDISC type `NdiscRepr::parse` reads them for; MLD
//!    getters only for MldQuery / MldReport.
//!  * Ipv6Option `data_len`/`data` are documented to panic on Pad1: not called.
//!  * Ipv6RoutingHeader `home_address` only for Type2, `cmpr_*`/`pad`/
//!    `addresses` only for Rpl ("may panic if not ...").
//!  * NdiscOption type specific getters only for the option's own type.
//!  * Ieee802154Frame auxiliary-security-header getters only when
//!    `security_enabled()` (there is no such header otherwise).
//!  * verify_checksum / Repr::parse of UDP/TCP only with src/dst of one family.
//!  * DNS `parse_name` iterators are drained like `socket::dns` does: stop at
//!    the first `Err`/`None`.

use serde_json::json;
use smoltcp::phy::ChecksumCapabilities;
use smoltcp::time::Duration;
use smoltcp::wire::*;
use std::hint::black_box;
use std::result::Result;
use std::sync::OnceLock;
use vkit::runner::{guarded, key_matches, panic_in_smoltcp, panic_key, Fail, Part, PhaseResult, Prop, RunEnv, Tier};
use vkit::{Ctx, Src};

// ------------------------------------------------------------------ guarded battery runner

/// Collects the failures of one battery run. Every call into smoltcp goes
/// through `call`, so the panic location is captured per call.
pub struct Bat {
    ty: &'static str,
    fails: Vec<Fail>,
}

impl Bat {
    fn new(ty: &'static str) -> Bat {
        Bat { ty, fails: vec![] }
    }
    fn push(&mut self, f: Fail) {
        if !self.fails.iter().any(|x| x.key == f.key) {
            self.fails.push(f);
        }
    }
    /// Run one call into smoltcp. None = it panicked (failure recorded).
    fn call<T>(&mut self, what: &'static str, f: impl FnOnce() -> T) -> Option<T> {
        // non-termination is detected by the CPU-time watchdog armed around the whole battery
        // (vkit::hang); a call that returns is never judged by how long it took
        let r = guarded(f);
        match r {
            Ok(v) => Some(v),
            Err(p) => {
                if !panic_in_smoltcp(&p) {
                    // a bug of this module, not of smoltcp: surface as harness panic
                    panic!("harness bug while calling {}::{}: {} at {}:{}", self.ty, what, p.msg, p.file, p.line);
                }
                self.push(Fail::new(
                    panic_key(&p),
                    format!("{}::{} panicked at {}:{}: {}", self.ty, what, p.file, p.line, p.msg),
                ));
                None
            }
        }
    }
    fn looped(&mut self, key: &'static str, what: &str) {
        self.push(Fail::new(key, format!("{}: {} iterated more often than the buffer has bytes", self.ty, what)));
    }
}

/// Outcome of a battery: did `new_checked` accept, did the Repr parser accept.
#[derive(Clone, Copy, Default)]
pub struct Out {
    ok: bool,
    parse: Option<bool>,
}

impl Out {
    fn rejected() -> Out {
        Out { ok: false, parse: None }
    }
    fn accepted(parse: Option<bool>) -> Out {
        Out { ok: true, parse }
    }
}

fn any_ok<T, E>(rs: &[Option<Result<T, E>>]) -> Option<bool> {
    let mut seen = false;
    for r in rs.iter().flatten() {
        seen = true;
        if r.is_ok() {
            return Some(true);
        }
    }
    if seen {
        Some(false)
    } else {
        None
    }
}

macro_rules! acc {
    ($b:ident, $p:ident; $($m:ident),* $(,)?) => {
        $( $b.call(stringify!($m), || { let _ = black_box($p.$m()); }); )*
    };
}

// ------------------------------------------------------------------ fields of seed packets

/// A (bit-)field inside a seed packet that is worth setting to boundary values.
#[derive(Clone, Copy, Debug)]
pub struct F {
    name: &'static str,
    off: usize,
    nbytes: u8,
    shift: u8,
    bits: u8,
    le: bool,
    /// the field counts units of `scale` bytes
    scale: u16,
}

const fn f8(name: &'static str, off: usize) -> F {
    F { name, off, nbytes: 1, shift: 0, bits: 8, le: false, scale: 1 }
}
const fn f8s(name: &'static str, off: usize, scale: u16) -> F {
    F { name, off, nbytes: 1, shift: 0, bits: 8, le: false, scale }
}
const fn f16(name: &'static str, off: usize) -> F {
    F { name, off, nbytes: 2, shift: 0, bits: 16, le: false, scale: 1 }
}
const fn f32_(name: &'static str, off: usize) -> F {
    F { name, off, nbytes: 4, shift: 0, bits: 32, le: false, scale: 1 }
}
const fn fbits(name: &'static str, off: usize, nbytes: u8, shift: u8, bits: u8, scale: u16) -> F {
    F { name, off, nbytes, shift, bits, le: false, scale }
}
const fn fbits_le(name: &'static str, off: usize, nbytes: u8, shift: u8, bits: u8) -> F {
    F { name, off, nbytes, shift, bits, le: true, scale: 1 }
}

fn field_get(buf: &[u8], f: &F) -> Option<u64> {
    let n = f.nbytes as usize;
    if f.off + n > buf.len() {
        return None;
    }
    let mut cur: u64 = 0;
    for i in 0..n {
        if f.le {
            cur |= (buf[f.off + i] as u64) << (8 * i);
        } else {
            cur = (cur << 8) | buf[f.off + i] as u64;
        }
    }
    let mask = if f.bits >= 64 { u64::MAX } else { (1u64 << f.bits) - 1 };
    Some((cur >> f.shift) & mask)
}

fn field_set(buf: &mut [u8], f: &F, v: u64) -> bool {
    let n = f.nbytes as usize;
    if f.off + n > buf.len() {
        return false;
    }
    let mut cur: u64 = 0;
    for i in 0..n {
        if f.le {
            cur |= (buf[f.off + i] as u64) << (8 * i);
        } else {
            cur = (cur << 8) | buf[f.off + i] as u64;
        }
    }
    let mask = ((1u64 << f.bits) - 1) << f.shift;
    let new = (cur & !mask) | ((v << f.shift) & mask);
    for i in 0..n {
        let byte = if f.le { (new >> (8 * i)) & 0xff } else { (new >> (8 * (n - 1 - i))) & 0xff };
        buf[f.off + i] = byte as u8;
    }
    true
}

pub struct Seed {
    name: &'static str,
    bytes: Vec<u8>,
    fields: Vec<F>,
}

fn seed(name: &'static str, bytes: Vec<u8>, mut fields: Vec<F>) -> Seed {
    // shared field lists may name fields a short seed does not have
    fields.retain(|f| f.off + f.nbytes as usize <= bytes.len());
    Seed { name, bytes, fields }
}

pub struct TypeDef {
    name: &'static str,
    /// typical header size; random lengths are biased to it
    hdr: usize,
    seeds: Vec<Seed>,
    run: fn(&mut Bat, &[u8]) -> Out,
}

// ------------------------------------------------------------------ generation

const SUBST: [u8; 6] = [0x00, 0x01, 0x7f, 0x80, 0xfe, 0xff];

fn hex(d: &[u8]) -> String {
    let mut s = String::new();
    for (i, b) in d.iter().enumerate() {
        if i >= 320 {
            s.push_str(&format!(" ... ({} bytes total)", d.len()));
            break;
        }
        if i > 0 && i % 4 == 0 {
            s.push(' ');
        }
        s.push_str(&format!("{:02x}", b));
    }
    s
}

fn boundary_value(src: &mut Src, f: &F, cur: u64, hdr: usize, buflen: usize) -> u64 {
    let max = (1u64 << f.bits) - 1;
    let sc = f.scale.max(1) as u64;
    let rem = buflen.saturating_sub(f.off) as u64;
    let hdr = hdr as u64;
    let bl = buflen as u64;
    let off = f.off as u64;
    let cands = [
        0,
        1,
        max - 1.min(max),
        max,
        (hdr / sc).saturating_sub(1),
        hdr / sc,
        hdr / sc + 1,
        (bl / sc).saturating_sub(1),
        bl / sc,
        bl / sc + 1,
        (rem / sc).saturating_sub(1),
        rem / sc,
        rem / sc + 1,
        cur.saturating_sub(1),
        cur + 1,
        2,
        max / 2,
        max / 2 + 1,
        off.saturating_sub(1),
        off,
        off + 1,
        off + f.nbytes as u64,
    ];
    let v = match src.weighted(&[14, 1]) {
        0 => *src.pick(&cands),
        _ => src.range(0, max),
    };
    v.min(max)
}

fn noise(src: &mut Src, data: &mut [u8]) -> Option<String> {
    if data.is_empty() {
        return None;
    }
    let off = match src.weighted(&[3, 1]) {
        0 => src.usize(0, (data.len() - 1).min(63)),
        _ => src.usize(0, data.len() - 1),
    };
    let rem = data.len() - off;
    let old = data[off];
    let new: u8 = match src.weighted(&[6, 4, 2, 2]) {
        0 => SUBST[src.usize(0, 5)],
        1 => {
            // the byte as a length/offset relative to the buffer
            let c = [
                rem.saturating_sub(1),
                rem,
                rem + 1,
                rem.saturating_sub(2),
                rem / 4,
                rem / 4 + 1,
                rem / 8,
                rem / 8 + 1,
                data.len(),
                data.len() + 1,
                data.len().saturating_sub(1),
                off,
                off + 1,
                off + 2,
            ];
            (*src.pick(&c)).min(255) as u8
        }
        2 => old ^ (1u8 << src.draw(7)),
        _ => src.u8(),
    };
    data[off] = new;
    Some(format!("byte {} : {:#04x} -> {:#04x}", off, old, new))
}

fn random_len(src: &mut Src, hdr: usize) -> usize {
    match src.weighted(&[4, 2, 2, 1]) {
        0 => src.usize(hdr.saturating_sub(2), (hdr + 2).min(2048)),
        1 => src.usize(0, 64),
        2 => src.usize(hdr, (hdr + 64).min(2048)),
        _ => src.biased(0, 2048) as usize,
    }
}

fn gen_input(t: &TypeDef, src: &mut Src, ctx: &mut Ctx) -> Vec<u8> {
    let source = src.weighted(&[2, 3, 5]);
    match source {
        0 => {
            let n = random_len(src, t.hdr);
            let mut d = src.bytes(n);
            // half of the time start from the first bytes of a valid packet so that
            // dispatch/type bytes are plausible
            if !t.seeds.is_empty() && src.chance(1, 2) {
                let s = &t.seeds[src.usize(0, t.seeds.len() - 1)];
                let k = src.usize(0, s.bytes.len().min(d.len()).min(4));
                d[..k].copy_from_slice(&s.bytes[..k]);
            }
            ctx.label(&format!("{}:src-random", t.name));
            ctx.note(|| format!("source: {} random bytes", n));
            d
        }
        1 => {
            let si = src.usize(0, t.seeds.len() - 1);
            let s = &t.seeds[si];
            let cut = src.usize(0, s.bytes.len());
            ctx.label(&format!("{}:src-trunc", t.name));
            ctx.note(|| format!("source: valid packet '{}' ({} bytes) truncated to {}", s.name, s.bytes.len(), cut));
            s.bytes[..cut].to_vec()
        }
        _ => {
            let si = src.usize(0, t.seeds.len() - 1);
            let s = &t.seeds[si];
            let mut d = s.bytes.clone();
            ctx.label(&format!("{}:src-field", t.name));
            ctx.note(|| format!("source: valid packet '{}' ({} bytes) with mutated fields", s.name, s.bytes.len()));
            // optional change of the buffer length first (so that "buffer length +-1"
            // values refer to the final buffer)
            match src.weighted(&[6, 1, 1]) {
                0 => {}
                1 => {
                    let extra = src.usize(1, 16);
                    let tail = src.bytes(extra);
                    d.extend_from_slice(&tail);
                    ctx.note(|| format!("  + {} trailing bytes", extra));
                }
                _ => {
                    let cut = src.usize(0, d.len().min(8));
                    d.truncate(d.len() - cut);
                    ctx.note(|| format!("  - {} bytes cut from the end", cut));
                }
            }
            let mut n = 0;
            loop {
                let use_field = !s.fields.is_empty() && src.weighted(&[3, 1]) == 0;
                if use_field {
                    let f = &s.fields[src.usize(0, s.fields.len() - 1)];
                    if let Some(cur) = field_get(&d, f) {
                        let v = boundary_value(src, f, cur, t.hdr, d.len());
                        field_set(&mut d, f, v);
                        ctx.label(&format!("{}:mut:{}", t.name, f.name));
                        ctx.note(|| format!("  field {} (offset {}): {} -> {}", f.name, f.off, cur, v));
                    }
                } else if let Some(desc) = noise(src, &mut d) {
                    ctx.label(&format!("{}:mut:noise", t.name));
                    ctx.note(|| format!("  noise {}", desc));
                }
                n += 1;
                if n >= 3 || !src.more(1, 3) {
                    break;
                }
            }
            d
        }
    }
}

/// Run the battery of `t` on `data`; returns the outcome and all distinct failures.
fn collect(t: &TypeDef, data: &[u8]) -> (Out, Vec<Fail>) {
    let mut b = Bat::new(t.name);
    let out = (t.run)(&mut b, data);
    (out, b.fails)
}

/// `skip` = number of distinct (not yet known) failure keys to pass over before
/// reporting one; lets the search report a second defect that only shows on
/// inputs that also trigger a first one. Value 0 (shrink target) reports the first.
fn evaluate(t: &TypeDef, data: &[u8], skip: usize, ctx: &mut Ctx) -> Result<(), Fail> {
    ctx.note(|| format!("{} view over {} bytes: {}", t.name, data.len(), hex(data)));
    let (out, fails) = collect(t, data);
    if out.ok {
        ctx.nontrivial = true;
        ctx.digest.bytes(data);
        ctx.label(&format!("{}:ok", t.name));
    }
    match out.parse {
        Some(true) => ctx.label(&format!("{}:parse-ok", t.name)),
        Some(false) => ctx.label(&format!("{}:parse-err", t.name)),
        None => {}
    }
    ctx.note(|| format!("new_checked accepted: {}, Repr parse: {:?}", out.ok, out.parse));
    let mut skipped = 0;
    for f in fails {
        if ctx.is_known(&f.key) {
            let _ = ctx.report(f);
            continue;
        }
        if skipped < skip {
            skipped += 1;
            continue;
        }
        return Err(f);
    }
    Ok(())
}

fn run_type(name: &'static str, src: &mut Src, ctx: &mut Ctx) -> Result<(), Fail> {
    let t = types().iter().find(|t| t.name == name).expect("type table");
    let skip = src.weighted(&[13, 1, 1, 1]);
    let data = gen_input(t, src, ctx);
    vkit::hang::arm(src, "C07", name, t.name, HANG_KEY, HANG_CPU_MS);
    let r = evaluate(t, &data, skip, ctx);
    vkit::hang::disarm();
    r
}

/// "Parsing always terminates": a battery (checked constructor, accessors, Repr parser,
/// pretty-printer over at most 2048 octets) that consumes this much CPU time without
/// returning does not terminate. Judged by the watchdog thread of vkit::hang.
const HANG_CPU_MS: u64 = 5_000;
const HANG_KEY: &str = "hang:view-battery-does-not-return";

/// replay form of one exhaustively enumerated case:
/// [type index, seed index, kind (0 truncate / 1 substitute), offset-or-length, byte value, skip]
fn seed_mut(src: &mut Src, ctx: &mut Ctx) -> Result<(), Fail> {
    let ts = types();
    let ti = src.usize(0, ts.len() - 1);
    let t = &ts[ti];
    let si = src.usize(0, t.seeds.len() - 1);
    let s = &t.seeds[si];
    let kind = src.usize(0, 1);
    let data = if kind == 0 {
        let cut = src.usize(0, s.bytes.len());
        ctx.note(|| format!("seed '{}' of {} truncated to {} of {} bytes", s.name, t.name, cut, s.bytes.len()));
        s.bytes[..cut].to_vec()
    } else {
        let off = src.usize(0, s.bytes.len() - 1);
        let v = src.u8();
        ctx.note(|| format!("seed '{}' of {}: byte {} set to {:#04x} (was {:#04x})", s.name, t.name, off, v, s.bytes[off]));
        let mut d = s.bytes.clone();
        d[off] = v;
        d
    };
    let skip = src.usize(0, 7);
    vkit::hang::arm(src, "C07", "seed_mut", t.name, HANG_KEY, HANG_CPU_MS);
    let r = evaluate(t, &data, skip, ctx);
    vkit::hang::disarm();
    r
}

fn exhaustive_phase(env: &RunEnv) -> PhaseResult {
    let ts = types();
    let mut pr = PhaseResult {
        name: "every truncation and every single-byte substitution of every seed packet".into(),
        exhaustive: true,
        ..Default::default()
    };
    let thorough = env.tier == Tier::Thorough;
    let mut excluded = 0u64;
    let mut nseeds = 0u64;
    let mut run = |ti: usize, si: usize, kind: u64, off: usize, val: u8, data: &[u8], pr: &mut PhaseResult| {
        let t = &ts[ti];
        vkit::hang::arm_tape(&[ti as u64, si as u64, kind, off as u64, val as u64, 0], "C07", "seed_mut", t.name, HANG_KEY, HANG_CPU_MS);
        let (out, fails) = collect(t, data);
        vkit::hang::disarm();
        pr.evaluations += 1;
        if out.ok {
            pr.nontrivial += 1;
        }
        let mut idx = 0u64;
        for f in fails {
            if env.known_open.iter().any(|k| key_matches(k, &f.key)) {
                excluded += 1;
                continue;
            }
            if !pr.failures.iter().any(|x| x.2.key == f.key) {
                pr.failures.push(("seed_mut".to_string(), vec![ti as u64, si as u64, kind, off as u64, val as u64, idx], f));
            }
            idx += 1;
        }
    };
    for (ti, t) in ts.iter().enumerate() {
        for (si, s) in t.seeds.iter().enumerate() {
            nseeds += 1;
            for cut in 0..=s.bytes.len() {
                run(ti, si, 0, cut, 0, &s.bytes[..cut], &mut pr);
            }
            let lim = if thorough { s.bytes.len() } else { s.bytes.len().min(64) };
            let mut d = s.bytes.clone();
            for off in 0..lim {
                let old = d[off];
                if thorough && off < 24 {
                    for v in 0..=255u8 {
                        d[off] = v;
                        run(ti, si, 1, off, v, &d, &mut pr);
                    }
                } else {
                    for v in SUBST {
                        d[off] = v;
                        run(ti, si, 1, off, v, &d, &mut pr);
                    }
                }
                d[off] = old;
            }
        }
    }
    pr.extra = json!({"types": ts.len(), "seed_packets": nseeds, "excluded_known": excluded,
        "substituted_values": if thorough { "all 256 on the first 24 bytes, 6 boundary values elsewhere, every offset" } else { "6 boundary values on the first 64 bytes" }});
    pr.samples.push(json!({"phase": "seed mutations", "example_seed": format!("{} '{}': {}", ts[0].name, ts[0].seeds[0].name, hex(&ts[0].seeds[0].bytes))}));
    pr
}

// ------------------------------------------------------------------ addresses used for checksums / parsers

fn a4s() -> Ipv4Address {
    Ipv4Address::new(10, 0, 0, 1)
}
fn a4d() -> Ipv4Address {
    Ipv4Address::new(10, 0, 0, 2)
}
fn a6s() -> Ipv6Address {
    Ipv6Address::new(0xfe80, 0, 0, 0, 0, 0, 0, 1)
}
fn a6d() -> Ipv6Address {
    Ipv6Address::new(0xfe80, 0, 0, 0, 0, 0, 0, 2)
}
fn caps2() -> [ChecksumCapabilities; 2] {
    [ChecksumCapabilities::default(), ChecksumCapabilities::ignored()]
}

// ------------------------------------------------------------------ batteries (one per view type)

fn run_eth(b: &mut Bat, d: &[u8]) -> Out {
    let Some(Ok(p)) = b.call("new_checked", || EthernetFrame::new_checked(d)) else {
        return Out::rejected();
    };
    acc!(b, p; dst_addr, src_addr, ethertype, payload);
    b.call("Display", || format!("{}", p));
    let r = b.call("Repr::parse", || EthernetRepr::parse(&p));
    b.call("PrettyPrinter", || format!("{}", PrettyPrinter::<EthernetFrame<&[u8]>>::new("", &d)));
    Out::accepted(any_ok(&[r]))
}

fn run_arp(b: &mut Bat, d: &[u8]) -> Out {
    let Some(Ok(p)) = b.call("new_checked", || ArpPacket::new_checked(d)) else {
        return Out::rejected();
    };
    acc!(b, p; hardware_type, protocol_type, hardware_len, protocol_len, operation,
        source_hardware_addr, source_protocol_addr, target_hardware_addr, target_protocol_addr);
    b.call("Display", || format!("{}", p));
    let r = b.call("Repr::parse", || ArpRepr::parse(&p));
    b.call("PrettyPrinter", || format!("{}", PrettyPrinter::<ArpPacket<&[u8]>>::new("", &d)));
    Out::accepted(any_ok(&[r]))
}

fn run_ipv4(b: &mut Bat, d: &[u8]) -> Out {
    let Some(Ok(p)) = b.call("new_checked", || Ipv4Packet::new_checked(d)) else {
        return Out::rejected();
    };
    acc!(b, p; version, header_len, dscp, ecn, total_len, ident, dont_frag, more_frags, frag_offset,
        hop_limit, next_header, checksum, src_addr, dst_addr, verify_checksum, get_key, payload);
    b.call("Display", || format!("{}", p));
    let mut rs = vec![];
    for c in caps2() {
        rs.push(b.call("Repr::parse", || Ipv4Repr::parse(&p, &c)));
    }
    b.call("PrettyPrinter", || format!("{}", PrettyPrinter::<Ipv4Packet<&[u8]>>::new("", &d)));
    Out::accepted(any_ok(&rs))
}

fn run_ipv6(b: &mut Bat, d: &[u8]) -> Out {
    let Some(Ok(p)) = b.call("new_checked", || Ipv6Packet::new_checked(d)) else {
        return Out::rejected();
    };
    acc!(b, p; header_len, version, traffic_class, flow_label, payload_len, total_len, next_header,
        hop_limit, src_addr, dst_addr, payload);
    b.call("Display", || format!("{}", p));
    let r = b.call("Repr::parse", || Ipv6Repr::parse(&p));
    b.call("PrettyPrinter", || format!("{}", PrettyPrinter::<Ipv6Packet<&[u8]>>::new("", &d)));
    Out::accepted(any_ok(&[r]))
}

fn run_ipv6ext(b: &mut Bat, d: &[u8]) -> Out {
    let Some(Ok(p)) = b.call("new_checked", || Ipv6ExtHeader::new_checked(d)) else {
        return Out::rejected();
    };
    acc!(b, p; next_header, header_len, payload);
    let r = b.call("Repr::parse", || Ipv6ExtHeaderRepr::parse(&p).map(|r| (r.next_header, r.length, r.data.len())));
    Out::accepted(any_ok(&[r]))
}

fn run_ipv6hbh(b: &mut Bat, d: &[u8]) -> Out {
    let Some(Ok(p)) = b.call("new_checked", || Ipv6HopByHopHeader::new_checked(d)) else {
        return Out::rejected();
    };
    acc!(b, p; options);
    let cap = d.len() + 1;
    let looped = b.call("Ipv6OptionsIterator", || {
        let mut n = 0usize;
        for o in Ipv6OptionsIterator::new(p.options()) {
            match o {
                Ok(r) => {
                    black_box(format!("{}", r));
                }
                Err(_) => break,
            }
            n += 1;
            if n > cap {
                return true;
            }
        }
        false
    });
    if looped == Some(true) {
        b.looped("ipv6hbh:options:loop", "Ipv6OptionsIterator");
    }
    let r = b.call("Repr::parse", || Ipv6HopByHopRepr::parse(&p).map(|r| r.buffer_len()));
    Out::accepted(any_ok(&[r]))
}

fn run_ipv6opt(b: &mut Bat, d: &[u8]) -> Out {
    let Some(Ok(p)) = b.call("new_checked", || Ipv6Option::new_checked(d)) else {
        return Out::rejected();
    };
    let ty = b.call("option_type", || p.option_type());
    // data_len()/data() are documented to panic for the 1-byte Pad1 option
    if let Some(ty) = ty {
        if ty != Ipv6OptionType::Pad1 {
            acc!(b, p; data_len, data);
        }
    }
    b.call("Display", || format!("{}", p));
    let r = b.call("Repr::parse", || Ipv6OptionRepr::parse(&p).map(|r| format!("{}", r)));
    Out::accepted(any_ok(&[r]))
}

fn run_ipv6frag(b: &mut Bat, d: &[u8]) -> Out {
    let Some(Ok(p)) = b.call("new_checked", || Ipv6FragmentHeader::new_checked(d)) else {
        return Out::rejected();
    };
    acc!(b, p; frag_offset, more_frags, ident);
    b.call("Display", || format!("{}", p));
    let r = b.call("Repr::parse", || Ipv6FragmentRepr::parse(&p));
    Out::accepted(any_ok(&[r]))
}

fn run_ipv6routing(b: &mut Bat, d: &[u8]) -> Out {
    let Some(Ok(p)) = b.call("new_checked", || Ipv6RoutingHeader::new_checked(d)) else {
        return Out::rejected();
    };
    acc!(b, p; segments_left);
    match b.call("routing_type", || p.routing_type()) {
        Some(Ipv6RoutingType::Type2) => {
            acc!(b, p; home_address);
        }
        Some(Ipv6RoutingType::Rpl) => {
            acc!(b, p; cmpr_i, cmpr_e, pad, addresses);
        }
        _ => {}
    }
    b.call("Display", || format!("{}", p));
    let r = b.call("Repr::parse", || Ipv6RoutingRepr::parse(&p).map(|r| format!("{}", r)));
    Out::accepted(any_ok(&[r]))
}

fn run_icmpv4(b: &mut Bat, d: &[u8]) -> Out {
    let Some(Ok(p)) = b.call("new_checked", || Icmpv4Packet::new_checked(d)) else {
        return Out::rejected();
    };
    acc!(b, p; msg_code, checksum, header_len, verify_checksum, data);
    if let Some(Icmpv4Message::EchoRequest | Icmpv4Message::EchoReply) = b.call("msg_type", || p.msg_type()) {
        acc!(b, p; echo_ident, echo_seq_no);
    }
    b.call("Display", || format!("{}", p));
    let mut rs = vec![];
    for c in caps2() {
        rs.push(b.call("Repr::parse", || Icmpv4Repr::parse(&p, &c).map(|r| format!("{}", r))));
    }
    b.call("PrettyPrinter", || format!("{}", PrettyPrinter::<Icmpv4Packet<&[u8]>>::new("", &d)));
    Out::accepted(any_ok(&rs))
}

fn run_icmpv6(b: &mut Bat, d: &[u8]) -> Out {
    let Some(Ok(p)) = b.call("new_checked", || Icmpv6Packet::new_checked(d)) else {
        return Out::rejected();
    };
    acc!(b, p; msg_code, checksum, header_len, payload);
    b.call("verify_checksum", || p.verify_checksum(&a6s(), &a6d()));
    let mt = b.call("msg_type", || p.msg_type());
    let cap = d.len() + 1;
    if let Some(mt) = mt {
        black_box((mt.is_error(), mt.is_ndisc(), mt.is_mld()));
        match mt {
            Icmpv6Message::EchoRequest | Icmpv6Message::EchoReply => {
                acc!(b, p; echo_ident, echo_seq_no);
            }
            Icmpv6Message::PktTooBig => {
                acc!(b, p; pkt_too_big_mtu);
            }
            Icmpv6Message::ParamProblem => {
                acc!(b, p; param_problem_ptr);
            }
            Icmpv6Message::RouterAdvert => {
                acc!(b, p; current_hop_limit, router_flags, router_lifetime, reachable_time, retrans_time);
            }
            Icmpv6Message::NeighborSolicit => {
                acc!(b, p; target_addr);
            }
            Icmpv6Message::NeighborAdvert => {
                acc!(b, p; neighbor_flags, target_addr);
            }
            Icmpv6Message::Redirect => {
                acc!(b, p; target_addr, dest_addr);
            }
            Icmpv6Message::MldQuery => {
                acc!(b, p; max_resp_code, mcast_addr, s_flag, qrv, qqic, num_srcs);
            }
            Icmpv6Message::MldReport => {
                acc!(b, p; nr_mcast_addr_rcrds);
                // walk the address records the way a listener would
                b.call("MldAddressRecord walk", || {
                    let mut rest = p.payload();
                    let mut n = 0usize;
                    while let Ok(rec) = MldAddressRecord::new_checked(rest) {
                        black_box((rec.record_type(), rec.aux_data_len(), rec.num_srcs(), rec.mcast_addr(), rec.payload().len()));
                        let _ = black_box(MldAddressRecordRepr::parse(&rec));
                        let skip = 20 + rec.num_srcs() as usize * 16 + rec.aux_data_len() as usize * 4;
                        if skip > rest.len() {
                            break;
                        }
                        rest = &rest[skip..];
                        n += 1;
                        if n > cap {
                            break;
                        }
                    }
                });
            }
            _ => {}
        }
        if mt.is_ndisc() {
            b.call("NdiscRepr::parse", || NdiscRepr::parse(&p).map(|r| r.buffer_len()));
        }
        if mt.is_mld() {
            b.call("MldRepr::parse", || MldRepr::parse(&p).map(|r| r.buffer_len()));
        }
    }
    let mut rs = vec![];
    for c in caps2() {
        rs.push(b.call("Repr::parse", || Icmpv6Repr::parse(&a6s(), &a6d(), &p, &c).map(|r| r.buffer_len())));
    }
    Out::accepted(any_ok(&rs))
}

fn run_ndiscopt(b: &mut Bat, d: &[u8]) -> Out {
    let Some(Ok(p)) = b.call("new_checked", || NdiscOption::new_checked(d)) else {
        return Out::rejected();
    };
    acc!(b, p; data_len, data);
    match b.call("option_type", || p.option_type()) {
        Some(NdiscOptionType::SourceLinkLayerAddr | NdiscOptionType::TargetLinkLayerAddr) => {
            acc!(b, p; link_layer_addr);
        }
        Some(NdiscOptionType::Mtu) => {
            acc!(b, p; mtu);
        }
        Some(NdiscOptionType::PrefixInformation) => {
            acc!(b, p; prefix_len, prefix_flags, valid_lifetime, preferred_lifetime, prefix);
        }
        _ => {}
    }
    b.call("Display", || format!("{}", p));
    let r = b.call("Repr::parse", || NdiscOptionRepr::parse(&p).map(|r| (format!("{}", r), r.buffer_len())));
    b.call("PrettyPrinter", || format!("{}", PrettyPrinter::<NdiscOption<&[u8]>>::new("", &d)));
    Out::accepted(any_ok(&[r]))
}

fn run_mldrec(b: &mut Bat, d: &[u8]) -> Out {
    let Some(Ok(p)) = b.call("new_checked", || MldAddressRecord::new_checked(d)) else {
        return Out::rejected();
    };
    acc!(b, p; record_type, aux_data_len, num_srcs, mcast_addr, payload);
    let r = b.call("Repr::parse", || MldAddressRecordRepr::parse(&p).map(|r| r.buffer_len()));
    Out::accepted(any_ok(&[r]))
}

fn run_igmp(b: &mut Bat, d: &[u8]) -> Out {
    let Some(Ok(p)) = b.call("new_checked", || IgmpPacket::new_checked(d)) else {
        return Out::rejected();
    };
    acc!(b, p; msg_type, max_resp_code, checksum, group_addr, verify_checksum);
    b.call("Display", || format!("{}", p));
    let r = b.call("Repr::parse", || IgmpRepr::parse(&p).map(|r| format!("{}", r)));
    b.call("PrettyPrinter", || format!("{}", PrettyPrinter::<IgmpPacket<&[u8]>>::new("", &d)));
    Out::accepted(any_ok(&[r]))
}

fn run_udp(b: &mut Bat, d: &[u8]) -> Out {
    let Some(Ok(p)) = b.call("new_checked", || UdpPacket::new_checked(d)) else {
        return Out::rejected();
    };
    acc!(b, p; src_port, dst_port, len, checksum, payload);
    let (s4, d4) = (IpAddress::Ipv4(a4s()), IpAddress::Ipv4(a4d()));
    let (s6, d6) = (IpAddress::Ipv6(a6s()), IpAddress::Ipv6(a6d()));
    b.call("verify_checksum(v4)", || p.verify_checksum(&s4, &d4));
    b.call("verify_checksum(v6)", || p.verify_checksum(&s6, &d6));
    b.call("verify_partial_checksum(v4)", || p.verify_partial_checksum(&s4, &d4));
    b.call("verify_partial_checksum(v6)", || p.verify_partial_checksum(&s6, &d6));
    b.call("Display", || format!("{}", p));
    let mut rs = vec![];
    for c in caps2() {
        rs.push(b.call("Repr::parse(v4)", || UdpRepr::parse(&p, &s4, &d4, &c).map(|r| format!("{}", r))));
        rs.push(b.call("Repr::parse(v6)", || UdpRepr::parse(&p, &s6, &d6, &c).map(|r| format!("{}", r))));
    }
    b.call("PrettyPrinter", || format!("{}", PrettyPrinter::<UdpPacket<&[u8]>>::new("", &d)));
    Out::accepted(any_ok(&rs))
}

fn run_tcp(b: &mut Bat, d: &[u8]) -> Out {
    let Some(Ok(p)) = b.call("new_checked", || TcpPacket::new_checked(d)) else {
        return Out::rejected();
    };
    acc!(b, p; src_port, dst_port, seq_number, ack_number, fin, syn, rst, psh, ack, urg, ece, cwr, ns,
        header_len, window_len, checksum, urgent_at, segment_len, selective_ack_permitted,
        selective_ack_ranges, options_summary, options, payload);
    let (s4, d4) = (IpAddress::Ipv4(a4s()), IpAddress::Ipv4(a4d()));
    let (s6, d6) = (IpAddress::Ipv6(a6s()), IpAddress::Ipv6(a6d()));
    b.call("verify_checksum(v4)", || p.verify_checksum(&s4, &d4));
    b.call("verify_checksum(v6)", || p.verify_checksum(&s6, &d6));
    b.call("verify_partial_checksum(v4)", || p.verify_partial_checksum(&s4, &d4));
    b.call("verify_partial_checksum(v6)", || p.verify_partial_checksum(&s6, &d6));
    let cap = d.len() + 1;
    let looped = b.call("TcpOption::parse walk", || {
        let mut o = p.options();
        let mut n = 0usize;
        while !o.is_empty() {
            match TcpOption::parse(o) {
                Ok((rest, opt)) => {
                    black_box(opt.buffer_len());
                    if opt == TcpOption::EndOfList {
                        break;
                    }
                    o = rest;
                }
                Err(_) => break,
            }
            n += 1;
            if n > cap {
                return true;
            }
        }
        false
    });
    if looped == Some(true) {
        b.looped("tcp:options:loop", "TcpOption::parse walk");
    }
    b.call("Display", || format!("{}", p));
    let mut rs = vec![];
    for c in caps2() {
        rs.push(b.call("Repr::parse(v4)", || TcpRepr::parse(&p, &s4, &d4, &c).map(|r| (format!("{}", r), r.buffer_len(), r.segment_len(), r.is_empty()))));
        rs.push(b.call("Repr::parse(v6)", || TcpRepr::parse(&p, &s6, &d6, &c).map(|r| (format!("{}", r), r.buffer_len(), r.segment_len(), r.is_empty()))));
    }
    b.call("PrettyPrinter", || format!("{}", PrettyPrinter::<TcpPacket<&[u8]>>::new("", &d)));
    Out::accepted(any_ok(&rs))
}

/// `TcpOption::parse` directly on a raw option area (no packet view in between).
fn run_tcpopt(b: &mut Bat, d: &[u8]) -> Out {
    let cap = d.len() + 1;
    let first = b.call("TcpOption::parse", || TcpOption::parse(d).map(|(rest, o)| (rest.len(), o.buffer_len())));
    let looped = b.call("TcpOption::parse walk", || {
        let mut o = d;
        let mut n = 0usize;
        while !o.is_empty() {
            match TcpOption::parse(o) {
                Ok((rest, opt)) => {
                    black_box(opt);
                    o = rest;
                }
                Err(_) => break,
            }
            n += 1;
            if n > cap {
                return true;
            }
        }
        false
    });
    if looped == Some(true) {
        b.looped("tcp:options:loop", "TcpOption::parse walk");
    }
    match first {
        Some(Ok(_)) => Out::accepted(Some(true)),
        Some(Err(_)) => Out { ok: false, parse: Some(false) },
        None => Out::rejected(),
    }
}

fn run_dhcp(b: &mut Bat, d: &[u8]) -> Out {
    let Some(Ok(p)) = b.call("new_checked", || DhcpPacket::new_checked(d)) else {
        return Out::rejected();
    };
    acc!(b, p; opcode, hardware_type, hardware_len, transaction_id, client_hardware_address, hops, secs,
        magic_number, client_ip, your_ip, server_ip, relay_agent_ip, flags);
    b.call("get_sname", || p.get_sname().map(|s| s.len()));
    b.call("get_boot_file", || p.get_boot_file().map(|s| s.len()));
    let cap = d.len() + 1;
    let looped = b.call("options", || {
        let mut n = 0usize;
        for o in p.options() {
            black_box((o.kind, o.data.len()));
            n += 1;
            if n > cap {
                return true;
            }
        }
        false
    });
    if looped == Some(true) {
        b.looped("dhcp:options:loop", "options()");
    }
    let r = b.call("Repr::parse", || DhcpRepr::parse(&p).map(|r| r.buffer_len()));
    Out::accepted(any_ok(&[r]))
}

/// Drain a `parse_name` iterator like `socket::dns` does (stop at the first Err/None).
/// Returns true if more labels came out than the buffer has bytes.
fn drain_name<'a>(p: &'a DnsPacket<&'a [u8]>, bytes: &'a [u8], cap: usize) -> bool {
    let mut n = 0usize;
    for l in p.parse_name(bytes) {
        match l {
            Ok(x) => {
                black_box(x.len());
                n += 1;
                if n > cap {
                    return true;
                }
            }
            Err(_) => break,
        }
    }
    false
}

fn run_dns(b: &mut Bat, d: &[u8]) -> Out {
    let Some(Ok(p)) = b.call("new_checked", || DnsPacket::new_checked(d)) else {
        return Out::rejected();
    };
    acc!(b, p; payload, transaction_id, flags, opcode, rcode, question_count, answer_record_count,
        authority_record_count, additional_record_count);
    let cap = d.len();
    let mut parse_ok = None;
    let mut looped = false;
    // questions, then answer/authority/additional records, through the public API
    let walked = b.call("Question/Record walk + parse_name", || {
        let mut looped = false;
        let mut first_q = None;
        let mut rest: &[u8] = p.payload();
        let mut broken = false;
        for i in 0..p.question_count() {
            match DnsQuestion::parse(rest) {
                Ok((r, q)) => {
                    if i == 0 {
                        first_q = Some(true);
                    }
                    black_box(q.buffer_len());
                    looped |= drain_name(&p, q.name, cap);
                    rest = r;
                }
                Err(_) => {
                    if i == 0 {
                        first_q = Some(false);
                    }
                    broken = true;
                    break;
                }
            }
        }
        if !broken {
            let nrec = p.answer_record_count() as usize + p.authority_record_count() as usize + p.additional_record_count() as usize;
            for _ in 0..nrec {
                match DnsRecord::parse(rest) {
                    Ok((r, rec)) => {
                        looped |= drain_name(&p, rec.name, cap);
                        match rec.data {
                            DnsRecordData::Cname(name) => looped |= drain_name(&p, name, cap),
                            DnsRecordData::Other(_, data) => {
                                black_box(data.len());
                            }
                            _ => {}
                        }
                        rest = r;
                    }
                    Err(_) => break,
                }
            }
        }
        (first_q, looped)
    });
    if let Some((q, l)) = walked {
        parse_ok = q;
        looped |= l;
    }
    // names starting at every offset of the first bytes behind the header
    let l2 = b.call("parse_name at offsets", || {
        let mut looped = false;
        let hi = d.len().min(12 + 40);
        for off in 12..hi {
            looped |= drain_name(&p, &d[off..], cap);
        }
        looped
    });
    if looped || l2 == Some(true) {
        b.looped("dns:parse_name:loop", "parse_name");
    }
    Out::accepted(parse_ok)
}

fn run_ieee802154(b: &mut Bat, d: &[u8]) -> Out {
    let Some(Ok(p)) = b.call("new_checked", || Ieee802154Frame::new_checked(d)) else {
        return Out::rejected();
    };
    acc!(b, p; frame_type, frame_pending, ack_request, pan_id_compression, sequence_number_suppression,
        ie_present, dst_addressing_mode, frame_version, src_addressing_mode, sequence_number,
        dst_pan_id, dst_addr, src_pan_id, src_addr, mac_header, payload);
    // the auxiliary security header only exists when the security bit is set
    if b.call("security_enabled", || p.security_enabled()) == Some(true) {
        acc!(b, p; security_level, key_identifier_mode, frame_counter_suppressed, frame_counter,
            key_source, key_index, message_integrity_code);
    }
    b.call("Display", || format!("{}", p));
    let r = b.call("Repr::parse", || Ieee802154Repr::parse(&p).map(|r| r.buffer_len()));
    Out::accepted(any_ok(&[r]))
}

fn ll_ext() -> Ieee802154Address {
    Ieee802154Address::Extended([0x02, 0x12, 0x4b, 0x00, 0x14, 0xb5, 0xd9, 0xc7])
}
fn ll_short() -> Ieee802154Address {
    Ieee802154Address::Short([0x12, 0x34])
}

fn run_iphc(b: &mut Bat, d: &[u8]) -> Out {
    b.call("SixlowpanPacket::dispatch", || SixlowpanPacket::dispatch(d));
    let Some(Ok(p)) = b.call("new_checked", || SixlowpanIphcPacket::new_checked(d)) else {
        return Out::rejected();
    };
    acc!(b, p; next_header, hop_limit, src_context_id, dst_context_id, ecn_field, dscp_field,
        flow_label_field, header_len, payload);
    let ctx1 = [SixlowpanAddressContext([0x20, 0x01, 0x0d, 0xb8, 0, 0, 0, 1])];
    let ctx16 = [SixlowpanAddressContext([0x20, 0x01, 0x0d, 0xb8, 0, 0, 0, 2]); 16];
    let lls = [None, Some(ll_ext()), Some(ll_short()), Some(Ieee802154Address::Absent)];
    b.call("src_addr + resolve", || {
        if let Ok(a) = p.src_addr() {
            for ll in lls {
                black_box(a.resolve(ll, &[]).is_ok());
                black_box(a.resolve(ll, &ctx1).is_ok());
                black_box(a.resolve(ll, &ctx16).is_ok());
            }
        }
    });
    b.call("dst_addr + resolve", || {
        if let Ok(a) = p.dst_addr() {
            for ll in lls {
                black_box(a.resolve(ll, &[]).is_ok());
                black_box(a.resolve(ll, &ctx1).is_ok());
                black_box(a.resolve(ll, &ctx16).is_ok());
            }
        }
    });
    let mut rs = vec![];
    rs.push(b.call("Repr::parse(no ll, no ctx)", || SixlowpanIphcRepr::parse(&p, None, None, &[]).map(|r| format!("{}", r))));
    rs.push(b.call("Repr::parse(ext/short, 1 ctx)", || {
        SixlowpanIphcRepr::parse(&p, Some(ll_ext()), Some(ll_short()), &ctx1).map(|r| format!("{}", r))
    }));
    rs.push(b.call("Repr::parse(short/ext, 16 ctx)", || {
        SixlowpanIphcRepr::parse(&p, Some(ll_short()), Some(ll_ext()), &ctx16).map(|r| format!("{}", r))
    }));
    Out::accepted(any_ok(&rs))
}

fn run_nhc_ext(b: &mut Bat, d: &[u8]) -> Out {
    b.call("SixlowpanNhcPacket::dispatch", || SixlowpanNhcPacket::dispatch(d).is_ok());
    let Some(Ok(p)) = b.call("new_checked", || SixlowpanExtHeaderPacket::new_checked(d)) else {
        return Out::rejected();
    };
    acc!(b, p; extension_header_id, length, next_header, payload);
    let r = b.call("Repr::parse", || SixlowpanExtHeaderRepr::parse(&p).map(|r| r.buffer_len()));
    Out::accepted(any_ok(&[r]))
}

fn run_nhc_udp(b: &mut Bat, d: &[u8]) -> Out {
    b.call("SixlowpanNhcPacket::dispatch", || SixlowpanNhcPacket::dispatch(d).is_ok());
    let Some(Ok(p)) = b.call("new_checked", || SixlowpanUdpNhcPacket::new_checked(d)) else {
        return Out::rejected();
    };
    acc!(b, p; src_port, dst_port, checksum, payload);
    let mut rs = vec![];
    for c in caps2() {
        rs.push(b.call("Repr::parse", || SixlowpanUdpNhcRepr::parse(&p, &a6s(), &a6d(), &c).map(|r| r.header_len())));
    }
    Out::accepted(any_ok(&rs))
}

fn run_frag(b: &mut Bat, d: &[u8]) -> Out {
    b.call("SixlowpanPacket::dispatch", || SixlowpanPacket::dispatch(d));
    let Some(Ok(p)) = b.call("new_checked", || SixlowpanFragPacket::new_checked(d)) else {
        return Out::rejected();
    };
    acc!(b, p; dispatch, datagram_size, datagram_tag, datagram_offset, is_first_fragment, payload);
    // get_key unwraps the link-layer addresses of the frame representation: give it some
    let ll = Ieee802154Repr {
        frame_type: Ieee802154FrameType::Data,
        security_enabled: false,
        frame_pending: false,
        ack_request: false,
        sequence_number: Some(1),
        pan_id_compression: true,
        frame_version: Ieee802154FrameVersion::Ieee802154_2006,
        dst_pan_id: Some(Ieee802154Pan(0xabcd)),
        dst_addr: Some(ll_short()),
        src_pan_id: None,
        src_addr: Some(ll_ext()),
    };
    b.call("get_key", || {
        black_box(p.get_key(&ll));
    });
    let r = b.call("Repr::parse", || SixlowpanFragRepr::parse(&p).map(|r| (format!("{}", r), r.buffer_len())));
    Out::accepted(any_ok(&[r]))
}

// ------------------------------------------------------------------ seed packets

fn mk_udp(v6: bool, src_port: u16, dst_port: u16, payload: &[u8]) -> Vec<u8> {
    let r = UdpRepr { src_port, dst_port };
    let mut buf = vec![0u8; 8 + payload.len()];
    let (s, d) = if v6 { (IpAddress::Ipv6(a6s()), IpAddress::Ipv6(a6d())) } else { (IpAddress::Ipv4(a4s()), IpAddress::Ipv4(a4d())) };
    r.emit(&mut UdpPacket::new_unchecked(&mut buf[..]), &s, &d, payload.len(), |p| p.copy_from_slice(payload), &ChecksumCapabilities::default());
    buf
}

fn tcp_repr<'a>(control: TcpControl, payload: &'a [u8]) -> TcpRepr<'a> {
    TcpRepr {
        src_port: 49152,
        dst_port: 80,
        control,
        seq_number: TcpSeqNumber(0x01234567),
        ack_number: None,
        window_len: 4096,
        window_scale: None,
        max_seg_size: None,
        sack_permitted: false,
        sack_ranges: [None, None, None],
        timestamp: None,
        payload,
    }
}

fn mk_tcp(v6: bool, r: &TcpRepr) -> Vec<u8> {
    let mut buf = vec![0u8; r.buffer_len()];
    let (s, d) = if v6 { (IpAddress::Ipv6(a6s()), IpAddress::Ipv6(a6d())) } else { (IpAddress::Ipv4(a4s()), IpAddress::Ipv4(a4d())) };
    r.emit(&mut TcpPacket::new_unchecked(&mut buf[..]), &s, &d, &ChecksumCapabilities::default());
    buf
}

fn tcp_syn(v6: bool) -> Vec<u8> {
    let mut r = tcp_repr(TcpControl::Syn, &[]);
    r.max_seg_size = Some(1460);
    r.window_scale = Some(7);
    r.sack_permitted = true;
    r.timestamp = Some(TcpTimestampRepr::new(0x11223344, 0));
    mk_tcp(v6, &r)
}

fn tcp_sack(v6: bool) -> Vec<u8> {
    let mut r = tcp_repr(TcpControl::None, b"0123456789");
    r.ack_number = Some(TcpSeqNumber(0x7654321));
    r.sack_ranges = [Some((1000, 2000)), Some((3000, 4000)), None];
    r.timestamp = Some(TcpTimestampRepr::new(5, 6));
    mk_tcp(v6, &r)
}

fn tcp_refill_checksum(buf: &mut [u8]) {
    let mut p = TcpPacket::new_unchecked(&mut buf[..]);
    p.fill_checksum(&IpAddress::Ipv4(a4s()), &IpAddress::Ipv4(a4d()));
}

/// TCP header with hand-written option bytes (padded to a multiple of 4 with NOPs)
fn tcp_raw_opts(opts: &[u8], payload: &[u8]) -> Vec<u8> {
    let r = tcp_repr(TcpControl::Psh, &[]);
    let mut buf = mk_tcp(false, &r);
    let mut o = opts.to_vec();
    while o.len() % 4 != 0 {
        o.push(1);
    }
    buf.truncate(20);
    buf.extend_from_slice(&o);
    buf.extend_from_slice(payload);
    let hl = 20 + o.len();
    buf[12] = ((hl / 4) as u8) << 4 | (buf[12] & 0x0f);
    tcp_refill_checksum(&mut buf);
    buf
}

fn mk_ipv4(proto: IpProtocol, payload: &[u8]) -> Vec<u8> {
    let r = Ipv4Repr { src_addr: a4s(), dst_addr: a4d(), next_header: proto, payload_len: payload.len(), hop_limit: 64 };
    let mut buf = vec![0u8; 20 + payload.len()];
    r.emit(&mut Ipv4Packet::new_unchecked(&mut buf[..]), &ChecksumCapabilities::default());
    buf[20..].copy_from_slice(payload);
    buf
}

/// IPv4 packet with `optlen` bytes of (NOP) options
fn mk_ipv4_opts(proto: IpProtocol, optlen: usize, payload: &[u8]) -> Vec<u8> {
    let base = mk_ipv4(proto, payload);
    let mut buf = base[..20].to_vec();
    buf.extend(std::iter::repeat(1u8).take(optlen));
    buf.extend_from_slice(payload);
    let total = buf.len() as u16;
    let mut p = Ipv4Packet::new_unchecked(&mut buf[..]);
    p.set_header_len((20 + optlen) as u8);
    p.set_total_len(total);
    p.fill_checksum();
    buf
}

fn mk_ipv4_frag(payload: &[u8]) -> Vec<u8> {
    let mut buf = mk_ipv4(IpProtocol::Udp, payload);
    let mut p = Ipv4Packet::new_unchecked(&mut buf[..]);
    p.set_dont_frag(false);
    p.set_more_frags(true);
    p.set_frag_offset(64);
    p.set_ident(0x4242);
    p.fill_checksum();
    buf
}

fn mk_ipv6(nh: IpProtocol, payload: &[u8]) -> Vec<u8> {
    let r = Ipv6Repr { src_addr: a6s(), dst_addr: a6d(), next_header: nh, payload_len: payload.len(), hop_limit: 64 };
    let mut buf = vec![0u8; 40 + payload.len()];
    r.emit(&mut Ipv6Packet::new_unchecked(&mut buf[..]));
    buf[40..].copy_from_slice(payload);
    buf
}

fn mk_eth(et: EthernetProtocol, payload: &[u8]) -> Vec<u8> {
    let r = EthernetRepr {
        src_addr: EthernetAddress([0x02, 0, 0, 0, 0, 1]),
        dst_addr: EthernetAddress([0x02, 0, 0, 0, 0, 2]),
        ethertype: et,
    };
    let mut buf = vec![0u8; 14 + payload.len()];
    r.emit(&mut EthernetFrame::new_unchecked(&mut buf[..]));
    buf[14..].copy_from_slice(payload);
    buf
}

fn mk_arp(op: ArpOperation) -> Vec<u8> {
    let r = ArpRepr::EthernetIpv4 {
        operation: op,
        source_hardware_addr: EthernetAddress([0x02, 0, 0, 0, 0, 1]),
        source_protocol_addr: a4s(),
        target_hardware_addr: EthernetAddress([0, 0, 0, 0, 0, 0]),
        target_protocol_addr: a4d(),
    };
    let mut buf = vec![0u8; r.buffer_len()];
    r.emit(&mut ArpPacket::new_unchecked(&mut buf[..]));
    buf
}

fn mk_icmpv4(r: &Icmpv4Repr) -> Vec<u8> {
    let mut buf = vec![0u8; r.buffer_len()];
    r.emit(&mut Icmpv4Packet::new_unchecked(&mut buf[..]), &ChecksumCapabilities::default());
    buf
}

fn icmpv4_echo(reply: bool) -> Vec<u8> {
    if reply {
        mk_icmpv4(&Icmpv4Repr::EchoReply { ident: 0x1234, seq_no: 7, data: b"abcdefgh" })
    } else {
        mk_icmpv4(&Icmpv4Repr::EchoRequest { ident: 0x1234, seq_no: 7, data: b"abcdefgh" })
    }
}

fn icmpv4_error(time_exceeded: bool) -> Vec<u8> {
    let header = Ipv4Repr { src_addr: a4d(), dst_addr: a4s(), next_header: IpProtocol::Udp, payload_len: 12, hop_limit: 1 };
    let data = b"\x12\x34\x00\x35\x00\x0c\x00\x00abcd";
    if time_exceeded {
        mk_icmpv4(&Icmpv4Repr::TimeExceeded { reason: Icmpv4TimeExceeded::TtlExpired, header, data })
    } else {
        mk_icmpv4(&Icmpv4Repr::DstUnreachable { reason: Icmpv4DstUnreachable::PortUnreachable, header, data })
    }
}

fn mk_igmp(r: &IgmpRepr) -> Vec<u8> {
    let mut buf = vec![0u8; r.buffer_len()];
    r.emit(&mut IgmpPacket::new_unchecked(&mut buf[..]));
    buf
}

fn mk_icmpv6(r: &Icmpv6Repr) -> Vec<u8> {
    let mut buf = vec![0u8; r.buffer_len()];
    r.emit(&a6s(), &a6d(), &mut Icmpv6Packet::new_unchecked(&mut buf[..]), &ChecksumCapabilities::default());
    buf
}

fn inner6() -> Ipv6Repr {
    Ipv6Repr { src_addr: a6d(), dst_addr: a6s(), next_header: IpProtocol::Udp, payload_len: 12, hop_limit: 3 }
}

fn eth_ll() -> RawHardwareAddress {
    RawHardwareAddress::from_bytes(&[0x02, 0, 0, 0, 0, 1])
}
fn ext_ll() -> RawHardwareAddress {
    RawHardwareAddress::from_bytes(&[0x02, 0x12, 0x4b, 0, 0x14, 0xb5, 0xd9, 0xc7])
}

fn mld_records() -> Vec<u8> {
    let mut v = vec![0u8; 20];
    let r = MldAddressRecordRepr::new(MldRecordType::ChangeToInclude, Ipv6Address::new(0xff02, 0, 0, 0, 0, 0, 0, 0x16));
    r.emit(&mut MldAddressRecord::new_unchecked(&mut v[..]));
    // second record with two sources and one word of auxiliary data
    let mut w = vec![0u8; 20 + 32 + 4];
    let r2 = MldAddressRecordRepr {
        record_type: MldRecordType::AllowNewSources,
        aux_data_len: 1,
        num_srcs: 2,
        mcast_addr: Ipv6Address::new(0xff05, 0, 0, 0, 0, 0, 0, 0x1234),
        payload: &[],
    };
    r2.emit(&mut MldAddressRecord::new_unchecked(&mut w[..]));
    for (i, x) in w[20..].iter_mut().enumerate() {
        *x = i as u8;
    }
    v.extend_from_slice(&w);
    v
}

/// fields for the NDISC options that follow the fixed ICMPv6 header of `hdr` bytes
fn ndisc_opt_fields(buf: &[u8], hdr: usize) -> Vec<F> {
    let mut v = vec![];
    let mut off = hdr;
    while off + 2 <= buf.len() {
        v.push(f8("ndisc-opt-type", off));
        v.push(f8s("ndisc-opt-len", off + 1, 8));
        let l = buf[off + 1] as usize * 8;
        if l == 0 {
            break;
        }
        off += l;
    }
    v
}

/// fields for kind/length of TLV options (kind, len incl. or excl. the 2 header bytes)
fn tlv_fields(buf: &[u8], start: usize, end: usize, len_incl_hdr: bool, one_byte: &[u8], stop: Option<u8>, kind: &'static str, len: &'static str) -> Vec<F> {
    let mut v = vec![];
    let mut off = start;
    let end = end.min(buf.len());
    while off < end {
        v.push(f8(kind, off));
        if Some(buf[off]) == stop {
            break;
        }
        if one_byte.contains(&buf[off]) {
            off += 1;
            continue;
        }
        if off + 1 >= end {
            break;
        }
        v.push(f8(len, off + 1));
        let l = buf[off + 1] as usize;
        let adv = if len_incl_hdr { l } else { l + 2 };
        if adv < 2 {
            break;
        }
        off += adv;
    }
    v
}

fn shift_fields(fs: &[F], by: usize) -> Vec<F> {
    fs.iter().map(|f| F { off: f.off + by, ..*f }).collect()
}

fn ipv4_fields() -> Vec<F> {
    vec![
        fbits("ipv4-version", 0, 1, 4, 4, 1),
        fbits("ipv4-ihl", 0, 1, 0, 4, 4),
        f16("ipv4-total-len", 2),
        f16("ipv4-flags-fragoff", 6),
        f8("ipv4-proto", 9),
    ]
}
fn ipv6_fields() -> Vec<F> {
    vec![fbits("ipv6-version", 0, 1, 4, 4, 1), f16("ipv6-payload-len", 4), f8("ipv6-next-header", 6)]
}
fn udp_fields() -> Vec<F> {
    vec![f16("udp-src-port", 0), f16("udp-dst-port", 2), f16("udp-len", 4), f16("udp-checksum", 6)]
}
fn tcp_fields(buf: &[u8]) -> Vec<F> {
    let mut v = vec![
        f16("tcp-src-port", 0),
        f16("tcp-dst-port", 2),
        fbits("tcp-data-offset", 12, 2, 12, 4, 4),
        fbits("tcp-flags", 12, 2, 0, 9, 1),
    ];
    if buf.len() >= 20 {
        let hl = ((buf[12] >> 4) as usize) * 4;
        v.extend(tlv_fields(buf, 20, hl, true, &[1], Some(0), "tcp-opt-kind", "tcp-opt-len"));
    }
    v
}

fn seeds_eth() -> Vec<Seed> {
    let mut v = vec![];
    let mut ef = vec![f16("ethertype", 12)];
    v.push(seed("eth+arp", mk_eth(EthernetProtocol::Arp, &mk_arp(ArpOperation::Request)), {
        let mut f = ef.clone();
        f.extend([f8("arp-hlen", 18), f8("arp-plen", 19), f16("arp-htype", 14), f16("arp-ptype", 16)]);
        f
    }));
    ef.extend(shift_fields(&ipv4_fields(), 14));
    let udp = mk_udp(false, 1234, 53, b"hello world!");
    v.push(seed("eth+ipv4+udp", mk_eth(EthernetProtocol::Ipv4, &mk_ipv4(IpProtocol::Udp, &udp)), {
        let mut f = ef.clone();
        f.extend(shift_fields(&udp_fields(), 34));
        f
    }));
    let tcp = tcp_syn(false);
    v.push(seed("eth+ipv4+tcp-syn", mk_eth(EthernetProtocol::Ipv4, &mk_ipv4(IpProtocol::Tcp, &tcp)), {
        let mut f = ef.clone();
        f.extend(shift_fields(&tcp_fields(&tcp), 34));
        f
    }));
    v.push(seed("eth+ipv4+icmp-echo", mk_eth(EthernetProtocol::Ipv4, &mk_ipv4(IpProtocol::Icmp, &icmpv4_echo(false))), {
        let mut f = ef.clone();
        f.extend([f8("icmpv4-type", 34), f8("icmpv4-code", 35)]);
        f
    }));
    v.push(seed("eth+ipv4+icmp-unreachable", mk_eth(EthernetProtocol::Ipv4, &mk_ipv4(IpProtocol::Icmp, &icmpv4_error(false))), {
        let mut f = ef.clone();
        f.extend([f8("icmpv4-type", 34), f8("icmpv4-code", 35)]);
        f.extend(shift_fields(&ipv4_fields(), 42));
        f
    }));
    let mut e6 = vec![f16("ethertype", 12)];
    e6.extend(shift_fields(&ipv6_fields(), 14));
    let udp6 = mk_udp(true, 1234, 53, b"hello world!");
    v.push(seed("eth+ipv6+udp", mk_eth(EthernetProtocol::Ipv6, &mk_ipv6(IpProtocol::Udp, &udp6)), {
        let mut f = e6.clone();
        f.extend(shift_fields(&udp_fields(), 54));
        f
    }));
    let tcp6 = tcp_sack(true);
    v.push(seed("eth+ipv6+tcp-sack", mk_eth(EthernetProtocol::Ipv6, &mk_ipv6(IpProtocol::Tcp, &tcp6)), {
        let mut f = e6.clone();
        f.extend(shift_fields(&tcp_fields(&tcp6), 54));
        f
    }));
    v
}

fn seeds_arp() -> Vec<Seed> {
    let f = vec![f16("arp-htype", 0), f16("arp-ptype", 2), f8("arp-hlen", 4), f8("arp-plen", 5), f16("arp-oper", 6)];
    vec![
        seed("arp-request", mk_arp(ArpOperation::Request), f.clone()),
        seed("arp-reply", mk_arp(ArpOperation::Reply), f.clone()),
        seed("arp-request+padding", {
            let mut b = mk_arp(ArpOperation::Request);
            b.extend_from_slice(&[0u8; 18]);
            b
        }, f),
    ]
}

fn seeds_ipv4() -> Vec<Seed> {
    let base = ipv4_fields();
    let mut v = vec![];
    let udp = mk_udp(false, 1234, 53, b"hello world!");
    v.push(seed("ipv4+udp", mk_ipv4(IpProtocol::Udp, &udp), {
        let mut f = base.clone();
        f.extend(shift_fields(&udp_fields(), 20));
        f
    }));
    let tcp = tcp_syn(false);
    v.push(seed("ipv4+tcp-syn", mk_ipv4(IpProtocol::Tcp, &tcp), {
        let mut f = base.clone();
        f.extend(shift_fields(&tcp_fields(&tcp), 20));
        f
    }));
    v.push(seed("ipv4+icmp-echo", mk_ipv4(IpProtocol::Icmp, &icmpv4_echo(true)), {
        let mut f = base.clone();
        f.extend([f8("icmpv4-type", 20), f8("icmpv4-code", 21)]);
        f
    }));
    v.push(seed("ipv4+icmp-time-exceeded", mk_ipv4(IpProtocol::Icmp, &icmpv4_error(true)), {
        let mut f = base.clone();
        f.extend([f8("icmpv4-type", 20), f8("icmpv4-code", 21)]);
        f.extend(shift_fields(&ipv4_fields(), 28));
        f
    }));
    v.push(seed("ipv4+igmp", mk_ipv4(IpProtocol::Igmp, &mk_igmp(&IgmpRepr::MembershipReport { group_addr: Ipv4Address::new(224, 0, 0, 251), version: IgmpVersion::Version2 })), base.clone()));
    v.push(seed("ipv4-with-options+udp", mk_ipv4_opts(IpProtocol::Udp, 8, &udp), {
        let mut f = base.clone();
        f.extend(shift_fields(&udp_fields(), 28));
        f
    }));
    v.push(seed("ipv4-fragment", mk_ipv4_frag(&[0x55; 24]), base.clone()));
    v.push(seed("ipv4+udp+trailing", {
        let mut b = mk_ipv4(IpProtocol::Udp, &udp);
        b.extend_from_slice(&[0xaa; 6]);
        b
    }, base));
    v
}

fn hbh_mld_payload() -> Vec<u8> {
    // hop-by-hop (router alert + PadN) followed by an MLDv2 report
    let mut hbh = Ipv6HopByHopRepr::mldv2_router_alert();
    hbh.push_padn_option(0);
    let mut ext = vec![0u8; 2 + hbh.buffer_len()];
    Ipv6ExtHeaderRepr { next_header: IpProtocol::Icmpv6, length: 0, data: &[] }.emit(&mut Ipv6ExtHeader::new_unchecked(&mut ext[..]));
    hbh.emit(&mut Ipv6HopByHopHeader::new_unchecked(&mut ext[2..]));
    let recs = mld_records();
    let mld = mk_icmpv6(&Icmpv6Repr::Mld(MldRepr::Report { nr_mcast_addr_rcrds: 2, data: &recs }));
    ext.extend_from_slice(&mld);
    ext
}

fn seeds_ipv6() -> Vec<Seed> {
    let base = ipv6_fields();
    let mut v = vec![];
    let udp = mk_udp(true, 1234, 53, b"hello world!");
    v.push(seed("ipv6+udp", mk_ipv6(IpProtocol::Udp, &udp), {
        let mut f = base.clone();
        f.extend(shift_fields(&udp_fields(), 40));
        f
    }));
    let tcp = tcp_syn(true);
    v.push(seed("ipv6+tcp-syn", mk_ipv6(IpProtocol::Tcp, &tcp), {
        let mut f = base.clone();
        f.extend(shift_fields(&tcp_fields(&tcp), 40));
        f
    }));
    let echo = mk_icmpv6(&Icmpv6Repr::EchoRequest { ident: 1, seq_no: 2, data: b"abcdefgh" });
    v.push(seed("ipv6+icmpv6-echo", mk_ipv6(IpProtocol::Icmpv6, &echo), base.clone()));
    v.push(seed("ipv6+hbh+mld-report", mk_ipv6(IpProtocol::HopByHop, &hbh_mld_payload()), {
        let mut f = base.clone();
        f.extend([f8("ext-next-header", 40), f8s("ext-len", 41, 8)]);
        f
    }));
    v.push(seed("ipv6-no-next-header", mk_ipv6(IpProtocol::Ipv6NoNxt, &[]), base.clone()));
    v.push(seed("ipv6+udp+trailing", {
        let mut b = mk_ipv6(IpProtocol::Udp, &udp);
        b.extend_from_slice(&[0xaa; 5]);
        b
    }, base));
    v
}

fn seeds_ipv6ext() -> Vec<Seed> {
    let f = vec![f8("ext-next-header", 0), f8s("ext-len", 1, 8)];
    let mut hbh = Ipv6HopByHopRepr::mldv2_router_alert();
    hbh.push_padn_option(0);
    let mut a = vec![0u8; 8];
    Ipv6ExtHeaderRepr { next_header: IpProtocol::Icmpv6, length: 0, data: &[] }.emit(&mut Ipv6ExtHeader::new_unchecked(&mut a[..]));
    hbh.emit(&mut Ipv6HopByHopHeader::new_unchecked(&mut a[2..]));
    let mut r2 = vec![0u8; 24];
    Ipv6ExtHeaderRepr { next_header: IpProtocol::Tcp, length: 2, data: &[] }.emit(&mut Ipv6ExtHeader::new_unchecked(&mut r2[..]));
    Ipv6RoutingRepr::Type2 { segments_left: 1, home_address: a6d() }.emit(&mut Ipv6RoutingHeader::new_unchecked(&mut r2[2..]));
    let mut fr = vec![0u8; 8];
    Ipv6ExtHeaderRepr { next_header: IpProtocol::Udp, length: 0, data: &[] }.emit(&mut Ipv6ExtHeader::new_unchecked(&mut fr[..]));
    Ipv6FragmentRepr { frag_offset: 185, more_frags: true, ident: 0xdeadbeef }.emit(&mut Ipv6FragmentHeader::new_unchecked(&mut fr[2..]));
    let mut long = vec![0u8; 8 + 8 * 3 + 9];
    long[0] = 0x3c;
    long[1] = 3;
    long[2] = 1;
    long[3] = 28;
    vec![
        seed("ext-hbh-router-alert", a, f.clone()),
        seed("ext-routing-type2", r2, f.clone()),
        seed("ext-fragment", fr, f.clone()),
        seed("ext-dstopts-len3+trailing", long, f),
    ]
}

fn seeds_ipv6hbh() -> Vec<Seed> {
    let mut hbh = Ipv6HopByHopRepr::mldv2_router_alert();
    hbh.push_padn_option(0);
    let mut a = vec![0u8; hbh.buffer_len()];
    hbh.emit(&mut Ipv6HopByHopHeader::new_unchecked(&mut a[..]));
    let b = vec![0u8; 6];
    let c = vec![0x3e, 4, 1, 2, 3, 4, 1, 4, 0, 0, 0, 0, 0, 0];
    let d = vec![0x63, 4, 0, 0x1e, 3, 0];
    let e = vec![1, 1, 0, 1, 0, 0xc2, 2, 9, 9, 5, 2, 0, 1, 0];
    let tl = |buf: &[u8]| tlv_fields(buf, 0, buf.len(), false, &[0], None, "ipv6-opt-type", "ipv6-opt-len");
    vec![
        seed("hbh-router-alert+padn", a.clone(), tl(&a)),
        seed("hbh-six-pad1", b.clone(), tl(&b)),
        seed("hbh-unknown+padn4", c.clone(), tl(&c)),
        seed("hbh-rpl-option", d.clone(), tl(&d)),
        seed("hbh-five-options", e.clone(), tl(&e)),
    ]
}

fn seeds_ipv6opt() -> Vec<Seed> {
    let f = vec![f8("ipv6-opt-type", 0), f8("ipv6-opt-len", 1)];
    vec![
        seed("opt-pad1", vec![0], f.clone()),
        seed("opt-padn3", vec![1, 3, 0, 0, 0], f.clone()),
        seed("opt-padn0", vec![1, 0], f.clone()),
        seed("opt-router-alert", vec![5, 2, 0, 0], f.clone()),
        seed("opt-unknown-discard", vec![0xc2, 4, 1, 2, 3, 4, 9, 9], f.clone()),
        seed("opt-rpl", vec![0x63, 4, 0, 0x1e, 3, 0], f),
    ]
}

fn seeds_ipv6frag() -> Vec<Seed> {
    let mut a = vec![0u8; 6];
    Ipv6FragmentRepr { frag_offset: 185, more_frags: true, ident: 0xdeadbeef }.emit(&mut Ipv6FragmentHeader::new_unchecked(&mut a[..]));
    let mut b = vec![0u8; 6];
    Ipv6FragmentRepr { frag_offset: 0, more_frags: false, ident: 1 }.emit(&mut Ipv6FragmentHeader::new_unchecked(&mut b[..]));
    b.extend_from_slice(&[0x11; 10]);
    let f = vec![f16("frag-offset-flags", 0), f32_("frag-ident", 2)];
    vec![seed("frag-mid", a, f.clone()), seed("frag-last+payload", b, f)]
}

fn seeds_ipv6routing() -> Vec<Seed> {
    let f = vec![f8("routing-type", 0), f8("routing-segments-left", 1), f8("routing-cmpr", 2), f8("routing-pad", 3)];
    let mut a = vec![0u8; 22];
    Ipv6RoutingRepr::Type2 { segments_left: 1, home_address: a6d() }.emit(&mut Ipv6RoutingHeader::new_unchecked(&mut a[..]));
    let addrs = [0x05u8, 0, 5, 0, 5, 0, 5, 6, 0, 6, 0, 6, 0, 6, 2, 0, 2, 0, 2, 0, 2, 0, 0, 0];
    let rpl = Ipv6RoutingRepr::Rpl { segments_left: 3, cmpr_i: 9, cmpr_e: 9, pad: 3, addresses: &addrs };
    let mut b = vec![0u8; rpl.buffer_len()];
    rpl.emit(&mut Ipv6RoutingHeader::new_unchecked(&mut b[..]));
    let rpl0 = Ipv6RoutingRepr::Rpl { segments_left: 0, cmpr_i: 0, cmpr_e: 0, pad: 0, addresses: &[] };
    let mut c = vec![0u8; rpl0.buffer_len()];
    rpl0.emit(&mut Ipv6RoutingHeader::new_unchecked(&mut c[..]));
    vec![
        seed("routing-type2", a, f.clone()),
        seed("routing-rpl", b, f.clone()),
        seed("routing-rpl-empty", c, f.clone()),
        seed("routing-type0", vec![0, 2, 0, 0, 0, 0, 1, 2, 3, 4, 5, 6, 7, 8], f),
    ]
}

fn seeds_icmpv4() -> Vec<Seed> {
    let f = vec![f8("icmpv4-type", 0), f8("icmpv4-code", 1), f16("icmpv4-checksum", 2)];
    let fe = {
        let mut f = f.clone();
        f.extend(shift_fields(&ipv4_fields(), 8));
        f
    };
    vec![
        seed("icmpv4-echo-request", icmpv4_echo(false), f.clone()),
        seed("icmpv4-echo-reply", icmpv4_echo(true), f.clone()),
        seed("icmpv4-echo-empty", mk_icmpv4(&Icmpv4Repr::EchoRequest { ident: 0, seq_no: 0, data: &[] }), f),
        seed("icmpv4-dst-unreachable", icmpv4_error(false), fe.clone()),
        seed("icmpv4-time-exceeded", icmpv4_error(true), fe),
    ]
}

fn seeds_icmpv6() -> Vec<Seed> {
    let base = vec![f8("icmpv6-type", 0), f8("icmpv6-code", 1)];
    let with = |extra: Vec<F>| {
        let mut f = base.clone();
        f.extend(extra);
        f
    };
    let data = b"\x12\x34\x00\x35\x00\x0c\x00\x00abcd";
    let mut v = vec![];
    v.push(seed("icmpv6-echo-request", mk_icmpv6(&Icmpv6Repr::EchoRequest { ident: 1, seq_no: 2, data: b"abcdefgh" }), base.clone()));
    v.push(seed("icmpv6-echo-reply-empty", mk_icmpv6(&Icmpv6Repr::EchoReply { ident: 1, seq_no: 2, data: &[] }), base.clone()));
    let inner = shift_fields(&ipv6_fields(), 8);
    v.push(seed("icmpv6-dst-unreachable", mk_icmpv6(&Icmpv6Repr::DstUnreachable { reason: Icmpv6DstUnreachable::PortUnreachable, header: inner6(), data }), with(inner.clone())));
    v.push(seed("icmpv6-pkt-too-big", mk_icmpv6(&Icmpv6Repr::PktTooBig { mtu: 1280, header: inner6(), data }), with(inner.clone())));
    v.push(seed("icmpv6-time-exceeded", mk_icmpv6(&Icmpv6Repr::TimeExceeded { reason: Icmpv6TimeExceeded::HopLimitExceeded, header: inner6(), data }), with(inner.clone())));
    v.push(seed("icmpv6-param-problem", mk_icmpv6(&Icmpv6Repr::ParamProblem { reason: Icmpv6ParamProblem::UnrecognizedNxtHdr, pointer: 40, header: inner6(), data }), with(inner)));
    let rs = mk_icmpv6(&Icmpv6Repr::Ndisc(NdiscRepr::RouterSolicit { lladdr: Some(eth_ll()) }));
    v.push(seed("ndisc-router-solicit", rs.clone(), with(ndisc_opt_fields(&rs, 8))));
    let rs0 = mk_icmpv6(&Icmpv6Repr::Ndisc(NdiscRepr::RouterSolicit { lladdr: None }));
    v.push(seed("ndisc-router-solicit-bare", rs0, base.clone()));
    let ra = mk_icmpv6(&Icmpv6Repr::Ndisc(NdiscRepr::RouterAdvert {
        hop_limit: 64,
        flags: NdiscRouterFlags::MANAGED,
        router_lifetime: Duration::from_secs(900),
        reachable_time: Duration::from_millis(900),
        retrans_time: Duration::from_millis(900),
        lladdr: Some(eth_ll()),
        mtu: Some(1500),
        prefix_info: Some(NdiscPrefixInformation {
            prefix_len: 64,
            flags: NdiscPrefixInfoFlags::ON_LINK | NdiscPrefixInfoFlags::ADDRCONF,
            valid_lifetime: Duration::from_secs(900),
            preferred_lifetime: Duration::from_secs(600),
            prefix: Ipv6Address::new(0x2001, 0xdb8, 0, 0, 0, 0, 0, 0),
        }),
    }));
    v.push(seed("ndisc-router-advert", ra.clone(), with(ndisc_opt_fields(&ra, 16))));
    let ns = mk_icmpv6(&Icmpv6Repr::Ndisc(NdiscRepr::NeighborSolicit { target_addr: a6d(), lladdr: Some(ext_ll()) }));
    v.push(seed("ndisc-neighbor-solicit", ns.clone(), with(ndisc_opt_fields(&ns, 24))));
    let na = mk_icmpv6(&Icmpv6Repr::Ndisc(NdiscRepr::NeighborAdvert { flags: NdiscNeighborFlags::SOLICITED, target_addr: a6s(), lladdr: Some(eth_ll()) }));
    v.push(seed("ndisc-neighbor-advert", na.clone(), with(ndisc_opt_fields(&na, 24))));
    let rd_data = [0x11u8; 8];
    let rd = mk_icmpv6(&Icmpv6Repr::Ndisc(NdiscRepr::Redirect {
        target_addr: a6d(),
        dest_addr: Ipv6Address::new(0x2001, 0xdb8, 0, 0, 0, 0, 0, 9),
        lladdr: Some(eth_ll()),
        redirected_hdr: Some(NdiscRedirectedHeader {
            header: Ipv6Repr { src_addr: a6s(), dst_addr: a6d(), next_header: IpProtocol::Udp, payload_len: 8, hop_limit: 64 },
            data: &rd_data,
        }),
    }));
    v.push(seed("ndisc-redirect", rd.clone(), {
        let mut f = with(ndisc_opt_fields(&rd, 40));
        // payload length of the redirected IPv6 header (option at 48, ip header at 56)
        f.push(f16("redirected-ipv6-payload-len", 60));
        f
    }));
    let q = mk_icmpv6(&Icmpv6Repr::Mld(MldRepr::Query {
        max_resp_code: 1000,
        mcast_addr: Ipv6Address::new(0xff02, 0, 0, 0, 0, 0, 0, 0x16),
        s_flag: true,
        qrv: 2,
        qqic: 125,
        num_srcs: 1,
        data: &[0x20, 1, 0xd, 0xb8, 0, 0, 0, 0, 0, 0, 0, 0, 0, 0, 0, 1],
    }));
    v.push(seed("mld-query", q, with(vec![f16("mld-query-num-srcs", 26), f16("mld-max-resp", 4)])));
    let recs = mld_records();
    let rep = mk_icmpv6(&Icmpv6Repr::Mld(MldRepr::Report { nr_mcast_addr_rcrds: 2, data: &recs }));
    v.push(seed("mld-report", rep, with(vec![
        f16("mld-nr-records", 6),
        f8("mld-rec-type", 8),
        f8("mld-rec-aux-len", 9),
        f16("mld-rec-num-srcs", 10),
        f8("mld-rec-aux-len", 29),
        f16("mld-rec-num-srcs", 30),
    ])));
    v
}

fn mk_ndiscopt(r: &NdiscOptionRepr) -> Vec<u8> {
    let mut buf = vec![0u8; r.buffer_len()];
    let mut o = NdiscOption::new_unchecked(&mut buf[..]);
    r.emit(&mut o);
    buf
}

fn seeds_ndiscopt() -> Vec<Seed> {
    let f = vec![f8("ndisc-opt-type", 0), f8s("ndisc-opt-len", 1, 8)];
    let rd_data = [0x22u8; 8];
    let unk = [0u8; 14];
    vec![
        seed("opt-slla-eth", mk_ndiscopt(&NdiscOptionRepr::SourceLinkLayerAddr(eth_ll())), f.clone()),
        seed("opt-tlla-ext", mk_ndiscopt(&NdiscOptionRepr::TargetLinkLayerAddr(ext_ll())), f.clone()),
        seed("opt-prefix-info", mk_ndiscopt(&NdiscOptionRepr::PrefixInformation(NdiscPrefixInformation {
            prefix_len: 64,
            flags: NdiscPrefixInfoFlags::ADDRCONF,
            valid_lifetime: Duration::from_secs(900),
            preferred_lifetime: Duration::from_secs(600),
            prefix: Ipv6Address::new(0x2001, 0xdb8, 0, 0, 0, 0, 0, 0),
        })), {
            let mut f = f.clone();
            f.push(f8("prefix-len", 2));
            f
        }),
        seed("opt-mtu", mk_ndiscopt(&NdiscOptionRepr::Mtu(1500)), f.clone()),
        seed("opt-redirected-header", mk_ndiscopt(&NdiscOptionRepr::RedirectedHeader(NdiscRedirectedHeader {
            header: Ipv6Repr { src_addr: a6s(), dst_addr: a6d(), next_header: IpProtocol::Udp, payload_len: 8, hop_limit: 64 },
            data: &rd_data,
        })), {
            let mut f = f.clone();
            f.push(f16("redirected-ipv6-payload-len", 12));
            f.push(fbits("redirected-ipv6-version", 8, 1, 4, 4, 1));
            f
        }),
        seed("opt-unknown", mk_ndiscopt(&NdiscOptionRepr::Unknown { type_: 0x20, length: 2, data: &unk }), f.clone()),
        seed("opt-slla+trailing", {
            let mut b = mk_ndiscopt(&NdiscOptionRepr::SourceLinkLayerAddr(eth_ll()));
            b.extend_from_slice(&[5, 1, 0, 0, 0, 0, 5, 0xdc]);
            b
        }, f),
    ]
}

fn seeds_mldrec() -> Vec<Seed> {
    let f = vec![f8("mld-rec-type", 0), f8("mld-rec-aux-len", 1), f16("mld-rec-num-srcs", 2)];
    let recs = mld_records();
    vec![
        seed("mldrec-bare", recs[..20].to_vec(), f.clone()),
        seed("mldrec-with-sources", recs[20..].to_vec(), f.clone()),
        seed("mldrec-two", recs, f),
    ]
}

fn seeds_igmp() -> Vec<Seed> {
    let f = vec![f8("igmp-type", 0), f8("igmp-max-resp", 1), f16("igmp-checksum", 2), f8("igmp-group-first-octet", 4)];
    let g = Ipv4Address::new(224, 0, 0, 251);
    vec![
        seed("igmp-query-v2", mk_igmp(&IgmpRepr::MembershipQuery { max_resp_time: Duration::from_millis(10_000), group_addr: Ipv4Address::new(0, 0, 0, 0), version: IgmpVersion::Version2 }), f.clone()),
        seed("igmp-query-v1", mk_igmp(&IgmpRepr::MembershipQuery { max_resp_time: Duration::from_millis(0), group_addr: g, version: IgmpVersion::Version1 }), f.clone()),
        seed("igmp-report-v2", mk_igmp(&IgmpRepr::MembershipReport { group_addr: g, version: IgmpVersion::Version2 }), f.clone()),
        seed("igmp-report-v1", mk_igmp(&IgmpRepr::MembershipReport { group_addr: g, version: IgmpVersion::Version1 }), f.clone()),
        seed("igmp-leave+trailing", {
            let mut b = mk_igmp(&IgmpRepr::LeaveGroup { group_addr: g });
            b.extend_from_slice(&[0; 4]);
            b
        }, f),
    ]
}

fn seeds_udp() -> Vec<Seed> {
    let f = udp_fields();
    vec![
        seed("udp-v4", mk_udp(false, 1234, 53, b"hello world!"), f.clone()),
        seed("udp-v6", mk_udp(true, 1234, 53, b"hello world!"), f.clone()),
        seed("udp-empty", mk_udp(false, 68, 67, &[]), f.clone()),
        seed("udp-zero-checksum", {
            let mut b = mk_udp(false, 1, 2, b"xyz");
            b[6] = 0;
            b[7] = 0;
            b
        }, f.clone()),
        seed("udp-v4+trailing", {
            let mut b = mk_udp(false, 1234, 53, b"hello world!");
            b.extend_from_slice(&[0xaa; 7]);
            b
        }, f),
    ]
}

fn seeds_tcp() -> Vec<Seed> {
    let mut v = vec![];
    let mut push = |name: &'static str, b: Vec<u8>| {
        let f = tcp_fields(&b);
        v.push(seed(name, b, f));
    };
    push("tcp-syn-all-options", tcp_syn(false));
    push("tcp-ack-sack-ts-data", tcp_sack(false));
    push("tcp-psh-data", mk_tcp(false, &{
        let mut r = tcp_repr(TcpControl::Psh, b"GET / HTTP/1.0\r\n\r\n");
        r.ack_number = Some(TcpSeqNumber(99));
        r
    }));
    push("tcp-fin-v6", mk_tcp(true, &{
        let mut r = tcp_repr(TcpControl::Fin, &[]);
        r.ack_number = Some(TcpSeqNumber(-5));
        r
    }));
    push("tcp-rst", mk_tcp(false, &tcp_repr(TcpControl::Rst, &[])));
    // unknown option, NOPs, explicit end-of-list followed by garbage
    push("tcp-unknown-option-eol", tcp_raw_opts(&[1, 1, 0xfe, 6, 1, 2, 3, 4, 0, 0x55, 0x55], b"data"));
    // four SACK blocks (length 34) and a window scale above 14
    push("tcp-four-sack-blocks", tcp_raw_opts(&[
        5, 34, 0, 0, 0, 1, 0, 0, 0, 2, 0, 0, 0, 3, 0, 0, 0, 4, 0, 0, 0, 5, 0, 0, 0, 6, 0, 0, 0, 7, 0, 0, 0, 8, 3, 3, 15,
    ], &[]));
    // full 40 bytes of options: ts + mss + ws + sackperm + 5 x 4-byte unknown
    push("tcp-40-option-bytes", tcp_raw_opts(&[
        8, 10, 0, 0, 0, 1, 0, 0, 0, 2, 2, 4, 5, 0xb4, 3, 3, 2, 4, 2, 0xfd, 4, 0, 0, 0xfd, 4, 0, 0, 0xfd, 4, 0, 0, 0xfd, 4, 0, 0, 0xfd, 3, 0, 1, 1,
    ], b"x"));
    v
}

fn seeds_tcpopt() -> Vec<Seed> {
    let f = vec![f8("tcp-opt-kind", 0), f8("tcp-opt-len", 1)];
    let mk = |name: &'static str, b: &[u8]| seed(name, b.to_vec(), f.clone());
    vec![
        mk("opt-eol", &[0]),
        mk("opt-nop+mss", &[1, 2, 4, 5, 0xb4]),
        mk("opt-mss", &[2, 4, 5, 0xb4]),
        mk("opt-ws", &[3, 3, 7]),
        mk("opt-sackperm", &[4, 2]),
        mk("opt-sack1", &[5, 10, 0, 0, 0, 1, 0, 0, 0, 2]),
        mk("opt-sack3", &[5, 26, 0, 0, 0, 1, 0, 0, 0, 2, 0, 0, 0, 3, 0, 0, 0, 4, 0, 0, 0, 5, 0, 0, 0, 6]),
        mk("opt-sack4", &[5, 34, 0, 0, 0, 1, 0, 0, 0, 2, 0, 0, 0, 3, 0, 0, 0, 4, 0, 0, 0, 5, 0, 0, 0, 6, 0, 0, 0, 7, 0, 0, 0, 8]),
        mk("opt-timestamp", &[8, 10, 0, 0, 0, 1, 0, 0, 0, 2]),
        mk("opt-unknown+more", &[0xfe, 4, 1, 2, 1, 1, 0]),
    ]
}

fn mk_dhcp(r: &DhcpRepr, pad: usize) -> Vec<u8> {
    let mut buf = vec![0u8; r.buffer_len() + pad];
    r.emit(&mut DhcpPacket::new_unchecked(&mut buf[..])).expect("dhcp emit");
    buf
}

fn dhcp_repr<'a>(mt: DhcpMessageType, extra: &'a [DhcpOption<'a>]) -> DhcpRepr<'a> {
    DhcpRepr {
        message_type: mt,
        transaction_id: 0x12345678,
        secs: 3,
        client_hardware_address: EthernetAddress([0x02, 0, 0, 0, 0, 1]),
        client_ip: Ipv4Address::new(0, 0, 0, 0),
        your_ip: Ipv4Address::new(0, 0, 0, 0),
        server_ip: Ipv4Address::new(0, 0, 0, 0),
        router: None,
        subnet_mask: None,
        relay_agent_ip: Ipv4Address::new(0, 0, 0, 0),
        broadcast: false,
        requested_ip: None,
        client_identifier: None,
        server_identifier: None,
        parameter_request_list: None,
        dns_servers: None,
        max_size: None,
        lease_duration: None,
        renew_duration: None,
        rebind_duration: None,
        additional_options: extra,
    }
}

fn dhcp_fields(buf: &[u8]) -> Vec<F> {
    let mut v = vec![f8("dhcp-op", 0), f8("dhcp-htype", 1), f8("dhcp-hlen", 2), f32_("dhcp-magic", 236), f16("dhcp-flags", 10), f8("dhcp-sname0", 34), f8("dhcp-file0", 108)];
    v.extend(tlv_fields(buf, 240, buf.len(), false, &[0], Some(255), "dhcp-opt-kind", "dhcp-opt-len"));
    v
}

fn seeds_dhcp() -> Vec<Seed> {
    let mut v = vec![];
    let mut push = |name: &'static str, b: Vec<u8>| {
        let f = dhcp_fields(&b);
        v.push(seed(name, b, f));
    };
    let mut d = dhcp_repr(DhcpMessageType::Discover, &[]);
    d.broadcast = true;
    d.client_identifier = Some(EthernetAddress([0x02, 0, 0, 0, 0, 1]));
    d.max_size = Some(1432);
    d.parameter_request_list = Some(&[1u8, 3, 6][..]);
    push("dhcp-discover", mk_dhcp(&d, 0));
    let extra = [
        DhcpOption { kind: 6, data: &[8, 8, 8, 8, 8, 8, 4, 4, 1, 1, 1, 1, 9, 9, 9, 9] },
        DhcpOption { kind: 58, data: &[0, 0, 1, 0] },
        DhcpOption { kind: 59, data: &[0, 0, 2, 0] },
        DhcpOption { kind: 15, data: b"example.org" },
    ];
    let mut a = dhcp_repr(DhcpMessageType::Ack, &extra);
    a.your_ip = Ipv4Address::new(10, 0, 0, 42);
    a.server_ip = Ipv4Address::new(10, 0, 0, 1);
    a.router = Some(Ipv4Address::new(10, 0, 0, 1));
    a.subnet_mask = Some(Ipv4Address::new(255, 255, 255, 0));
    a.server_identifier = Some(Ipv4Address::new(10, 0, 0, 1));
    a.lease_duration = Some(3600);
    push("dhcp-ack", mk_dhcp(&a, 0));
    let mut o = dhcp_repr(DhcpMessageType::Offer, &[]);
    o.your_ip = Ipv4Address::new(10, 0, 0, 42);
    o.server_identifier = Some(Ipv4Address::new(10, 0, 0, 1));
    o.lease_duration = Some(60);
    // with server name / boot file strings and trailing padding
    let mut ob = mk_dhcp(&o, 12);
    ob[34..38].copy_from_slice(b"srv\0");
    ob[108..117].copy_from_slice(b"boot.img\0");
    push("dhcp-offer-sname-file-padding", ob);
    let mut r = dhcp_repr(DhcpMessageType::Request, &[]);
    r.requested_ip = Some(Ipv4Address::new(10, 0, 0, 42));
    r.server_identifier = Some(Ipv4Address::new(10, 0, 0, 1));
    r.client_identifier = Some(EthernetAddress([0x02, 0, 0, 0, 0, 1]));
    r.parameter_request_list = Some(&[1u8, 3, 6, 15, 51, 58, 59][..]);
    push("dhcp-request", mk_dhcp(&r, 0));
    // header only (no options at all)
    let n = dhcp_repr(DhcpMessageType::Nak, &[]);
    let mut nb = mk_dhcp(&n, 0);
    nb.truncate(240);
    push("dhcp-header-only", nb);
    v
}

fn seeds_dns() -> Vec<Seed> {
    let mut v = vec![];
    let counts = vec![f16("dns-flags", 2), f16("dns-qdcount", 4), f16("dns-ancount", 6), f16("dns-nscount", 8), f16("dns-arcount", 10)];
    // plain query built by the emitter
    let q = DnsRepr {
        transaction_id: 0x1234,
        opcode: DnsOpcode::Query,
        flags: DnsFlags::RECURSION_DESIRED,
        question: DnsQuestion { name: b"\x06google\x03com\x00", type_: DnsQueryType::A },
    };
    let mut qb = vec![0u8; q.buffer_len()];
    q.emit(&mut DnsPacket::new_unchecked(&mut qb[..]));
    v.push(seed("dns-query", qb, {
        let mut f = counts.clone();
        f.extend([f8("dns-label-len", 12), f8("dns-label-len", 19), f8("dns-name-end", 23), f16("dns-qtype", 24), f16("dns-qclass", 26)]);
        f
    }));
    // response: question www.example.com A; CNAME answer with backward pointer; A answer
    let mut r: Vec<u8> = vec![0x12, 0x34, 0x81, 0x80, 0, 1, 0, 2, 0, 0, 0, 0];
    r.extend_from_slice(b"\x03www\x07example\x03com\x00"); // 12..29
    r.extend_from_slice(&[0, 1, 0, 1]); // 29..33
    let a1 = r.len(); // 33
    r.extend_from_slice(&[0xc0, 0x0c, 0, 5, 0, 1, 0, 0, 0, 60, 0, 6]); // name ptr, CNAME, IN, ttl, rdlen
    let cname = r.len(); // 45
    r.extend_from_slice(&[3, b'f', b'o', b'o', 0xc0, 0x10]); // foo.<example.com>
    let a2 = r.len(); // 51
    r.extend_from_slice(&[0xc0, cname as u8, 0, 1, 0, 1, 0, 0, 0, 60, 0, 4, 93, 184, 216, 34]);
    v.push(seed("dns-response-cname-a", r.clone(), {
        let mut f = counts.clone();
        f.extend([
            f8("dns-label-len", 12),
            f8("dns-label-len", 16),
            f8("dns-label-len", 24),
            fbits("dns-pointer", a1, 2, 0, 14, 1),
            f8("dns-pointer-tag", a1),
            f16("dns-rtype", a1 + 2),
            f16("dns-rdlength", a1 + 10),
            f8("dns-label-len", cname),
            fbits("dns-pointer", cname + 4, 2, 0, 14, 1),
            fbits("dns-pointer", a2, 2, 0, 14, 1),
            f16("dns-rdlength", a2 + 10),
        ]);
        f
    }));
    // AAAA response with authority and additional records
    let mut s: Vec<u8> = vec![0xab, 0xcd, 0x84, 0x00, 0, 1, 0, 1, 0, 1, 0, 1];
    s.extend_from_slice(b"\x01a\x02bc\x00");
    s.extend_from_slice(&[0, 0x1c, 0, 1]);
    let n1 = s.len();
    s.extend_from_slice(&[0xc0, 0x0c, 0, 0x1c, 0, 1, 0, 0, 1, 0, 0, 16]);
    s.extend_from_slice(&[0x20, 1, 0xd, 0xb8, 0, 0, 0, 0, 0, 0, 0, 0, 0, 0, 0, 1]);
    let n2 = s.len();
    s.extend_from_slice(&[0xc0, 0x0e, 0, 2, 0, 1, 0, 0, 1, 0, 0, 5, 2, b'n', b's', 0xc0, 0x0e]);
    let n3 = s.len();
    s.extend_from_slice(&[2, b'n', b's', 0xc0, 0x0e, 0, 1, 0, 1, 0, 0, 1, 0, 0, 4, 10, 0, 0, 1]);
    v.push(seed("dns-response-aaaa-ns-additional", s, {
        let mut f = counts.clone();
        f.extend([
            f8("dns-label-len", 12),
            f8("dns-label-len", 14),
            fbits("dns-pointer", n1, 2, 0, 14, 1),
            f16("dns-rdlength", n1 + 10),
            fbits("dns-pointer", n2, 2, 0, 14, 1),
            f16("dns-rdlength", n2 + 10),
            fbits("dns-pointer", n2 + 15, 2, 0, 14, 1),
            f8("dns-label-len", n3),
            fbits("dns-pointer", n3 + 3, 2, 0, 14, 1),
        ]);
        f
    }));
    // question name is a pointer to itself; answer name points forward, answer cname points at the header
    let mut l: Vec<u8> = vec![0, 1, 0x81, 0x80, 0, 1, 0, 1, 0, 0, 0, 0];
    l.extend_from_slice(&[0xc0, 0x0c, 0, 1, 0, 1]); // 12..18
    l.extend_from_slice(&[0xc0, 0x20, 0, 5, 0, 1, 0, 0, 0, 1, 0, 4, 1, b'x', 0xc0, 0x00]); // 18..34, ptr forward to 32
    v.push(seed("dns-pointer-self-forward-zero", l, {
        let mut f = counts.clone();
        f.extend([
            fbits("dns-pointer", 12, 2, 0, 14, 1),
            fbits("dns-pointer", 18, 2, 0, 14, 1),
            fbits("dns-pointer", 32, 2, 0, 14, 1),
            f16("dns-rdlength", 28),
        ]);
        f
    }));
    // header only
    v.push(seed("dns-header-only", vec![0, 2, 0x81, 0x83, 0, 0, 0, 0, 0, 0, 0, 0], counts));
    v
}

fn fc_fields() -> Vec<F> {
    vec![
        fbits_le("154-frame-type", 0, 2, 0, 3),
        fbits_le("154-security", 0, 2, 3, 1),
        fbits_le("154-pan-id-compression", 0, 2, 6, 1),
        fbits_le("154-seq-suppression", 0, 2, 8, 1),
        fbits_le("154-ie-present", 0, 2, 9, 1),
        fbits_le("154-dst-mode", 0, 2, 10, 2),
        fbits_le("154-version", 0, 2, 12, 2),
        fbits_le("154-src-mode", 0, 2, 14, 2),
        fbits_le("154-frame-control", 0, 2, 0, 16),
    ]
}

fn sec_fields(at: usize) -> Vec<F> {
    vec![
        fbits("154-sec-level", at, 1, 0, 3, 1),
        fbits("154-key-id-mode", at, 1, 3, 2, 1),
        fbits("154-frame-counter-suppressed", at, 1, 5, 1, 1),
        f8("154-sec-control", at),
    ]
}

fn mk_154(r: &Ieee802154Repr, payload: &[u8]) -> Vec<u8> {
    let mut buf = vec![0u8; r.buffer_len() + payload.len()];
    let hl = r.buffer_len();
    r.emit(&mut Ieee802154Frame::new_unchecked(&mut buf[..]));
    buf[hl..].copy_from_slice(payload);
    buf
}

fn seeds_ieee802154() -> Vec<Seed> {
    let f = fc_fields();
    let mut v = vec![];
    v.push(seed("154-data-extended-addrs", vec![
        0b0000_0001, 0b1100_1100, 0, 0xcd, 0xab, 0, 1, 0, 1, 0, 1, 0, 1, 3, 4, 0, 1, 0, 1, 0, 1, 0, 2,
    ], f.clone()));
    v.push(seed("154-data-short-addrs", vec![0x01, 0x98, 0x00, 0x34, 0x12, 0x78, 0x56, 0x34, 0x12, 0xbc, 0x9a], f.clone()));
    v.push(seed("154-data-short-ext-payload", vec![
        0x41, 0xd8, 0x01, 0xcd, 0xab, 0xff, 0xff, 0xc7, 0xd9, 0xb5, 0x14, 0x00, 0x4b, 0x12, 0x00, 0x2b, 0x00, 0x00, 0x00,
    ], f.clone()));
    v.push(seed("154-secured-level5", vec![
        0x69, 0xdc, 0x32, 0xcd, 0xab, 0xbf, 0x9b, 0x15, 0x06, 0x00, 0x4b, 0x12, 0x00, 0xc7, 0xd9, 0xb5, 0x14, 0x00, 0x4b, 0x12, 0x00,
        0x05, 0x31, 0x01, 0x00, 0x00,
        0x3e, 0xe8, 0xfb, 0x85, 0xe4, 0xcc, 0xf4, 0x48, 0x90, 0xfe, 0x56, 0x66, 0xf7, 0x1c, 0x65, 0x9e, 0xf9,
        0x93, 0xc8, 0x34, 0x2e,
    ], {
        let mut g = f.clone();
        g.extend(sec_fields(21));
        g
    }));
    // security enabled, short addresses, key identifier mode 1 (1 byte index), level 6 (8 byte MIC)
    v.push(seed("154-secured-keyid1-level6", vec![
        0x49, 0x98, 0x07, 0x34, 0x12, 0x78, 0x56, 0xbc, 0x9a,
        0x0e, 1, 0, 0, 0, 0x42,
        1, 2, 3, 4, 5, 6,
        0xa0, 0xa1, 0xa2, 0xa3, 0xa4, 0xa5, 0xa6, 0xa7,
    ], {
        let mut g = f.clone();
        g.extend(sec_fields(9));
        g
    }));
    // key identifier mode 3 (8 byte source + index), level 7 (16 byte MIC), no addresses (2015 frame)
    v.push(seed("154-secured-keyid3-level7-noaddr", vec![
        0x09, 0x20, 0x07,
        0x1f, 9, 0, 0, 0, 1, 2, 3, 4, 5, 6, 7, 8, 0x42,
        0xb0, 0xb1, 0xb2, 0xb3, 0xb4, 0xb5, 0xb6, 0xb7, 0xb8, 0xb9, 0xba, 0xbb, 0xbc, 0xbd, 0xbe, 0xbf,
    ], {
        let mut g = f.clone();
        g.extend(sec_fields(3));
        g
    }));
    v.push(seed("154-ack+fcs", vec![0x02, 0x00, 0x55, 0x12, 0x34], f.clone()));
    v.push(seed("154-beacon", vec![0x00, 0x80, 0x01, 0xcd, 0xab, 0x34, 0x12, 0xff, 0xcf, 0x00, 0x00], f.clone()));
    let r = Ieee802154Repr {
        frame_type: Ieee802154FrameType::Data,
        security_enabled: false,
        frame_pending: false,
        ack_request: true,
        sequence_number: Some(1),
        pan_id_compression: true,
        frame_version: Ieee802154FrameVersion::Ieee802154,
        dst_pan_id: Some(Ieee802154Pan(0xabcd)),
        dst_addr: Some(Ieee802154Address::BROADCAST),
        src_pan_id: None,
        src_addr: Some(ll_ext()),
    };
    v.push(seed("154-2015-emitted+iphc", mk_154(&r, &[0x7a, 0x33, 0x3a, 0x80, 0x00, 0x12, 0x34, 0, 1, 0, 2]), f.clone()));
    let r2 = Ieee802154Repr { frame_version: Ieee802154FrameVersion::Ieee802154_2006, pan_id_compression: false, src_pan_id: Some(Ieee802154Pan(0x1234)), dst_addr: Some(ll_ext()), src_addr: Some(ll_short()), ..r };
    v.push(seed("154-2006-emitted", mk_154(&r2, &[0xc0, 0xff, 0xab, 0xcd, 1, 2, 3]), f.clone()));
    // smallest secured 2015 frame: no addresses, frame counter suppressed, key id mode 0,
    // level 1 (4 byte MIC), two payload bytes
    v.push(seed("154-secured-min-2015", vec![0x09, 0x20, 0x07, 0x21, 0xaa, 0xbb, 0xc0, 0xc1, 0xc2, 0xc3], {
        let mut g = f;
        g.extend(sec_fields(3));
        g
    }));
    v
}

fn iphc_fields() -> Vec<F> {
    vec![
        fbits("iphc-dispatch", 0, 2, 13, 3, 1),
        fbits("iphc-tf", 0, 2, 11, 2, 1),
        fbits("iphc-nh", 0, 2, 10, 1, 1),
        fbits("iphc-hlim", 0, 2, 8, 2, 1),
        fbits("iphc-cid", 0, 2, 7, 1, 1),
        fbits("iphc-sac", 0, 2, 6, 1, 1),
        fbits("iphc-sam", 0, 2, 4, 2, 1),
        fbits("iphc-m", 0, 2, 3, 1, 1),
        fbits("iphc-dac", 0, 2, 2, 1, 1),
        fbits("iphc-dam", 0, 2, 0, 2, 1),
        f16("iphc-base", 0),
        f8("iphc-cid-byte", 2),
    ]
}

fn mk_iphc(r: &SixlowpanIphcRepr, payload: &[u8]) -> Vec<u8> {
    let hl = r.buffer_len();
    let mut buf = vec![0u8; hl + payload.len()];
    r.emit(&mut SixlowpanIphcPacket::new_unchecked(&mut buf[..hl]));
    buf[hl..].copy_from_slice(payload);
    buf
}

fn seeds_iphc() -> Vec<Seed> {
    let f = iphc_fields();
    let mut v = vec![];
    v.push(seed("iphc-elided-addrs-inline-nh", vec![0x7a, 0x33, 0x3a, 0x80, 0, 0x12, 0x34, 0, 1, 0, 2], f.clone()));
    v.push(seed("iphc-context-elided", vec![0x7e, 0xf7, 0x00, 0xf0, 0x16, 0x2e, 0x22, 0x3d, 0x28, 0xc4], f.clone()));
    let base = SixlowpanIphcRepr {
        src_addr: a6s(),
        ll_src_addr: None,
        dst_addr: a6d(),
        ll_dst_addr: None,
        next_header: SixlowpanNextHeader::Uncompressed(IpProtocol::Udp),
        hop_limit: 37,
        ecn: None,
        dscp: None,
        flow_label: None,
    };
    v.push(seed("iphc-linklocal-64bit-inline", mk_iphc(&base, b"payload!"), f.clone()));
    let global = SixlowpanIphcRepr {
        src_addr: Ipv6Address::new(0x2001, 0xdb8, 0, 0, 0, 0, 0, 1),
        dst_addr: Ipv6Address::new(0x2001, 0xdb8, 0, 0, 0, 0, 0, 2),
        next_header: SixlowpanNextHeader::Compressed,
        hop_limit: 64,
        ..base
    };
    v.push(seed("iphc-full-inline-addrs", mk_iphc(&global, &[0xf0, 0x16, 0x2e, 0x22, 0x3d, 0x28, 0xc4, 1, 2]), f.clone()));
    let short = SixlowpanIphcRepr {
        src_addr: Ipv6Address::new(0xfe80, 0, 0, 0, 0, 0xff, 0xfe00, 0x1234),
        dst_addr: Ipv6Address::new(0xff02, 0, 0, 0, 0, 0, 0, 1),
        hop_limit: 255,
        ..base
    };
    v.push(seed("iphc-16bit-src-mcast8-dst", mk_iphc(&short, b"abc"), f.clone()));
    let mc32 = SixlowpanIphcRepr { src_addr: Ipv6Address::UNSPECIFIED, dst_addr: Ipv6Address::new(0xff05, 0, 0, 0, 0, 0, 0x0012, 0x3456), hop_limit: 1, ..base };
    v.push(seed("iphc-unspecified-src-mcast32-dst", mk_iphc(&mc32, b"abc"), f.clone()));
    let mc48 = SixlowpanIphcRepr { dst_addr: Ipv6Address::new(0xff02, 0, 0, 0, 0, 1, 0xff00, 0x1234), ..base };
    v.push(seed("iphc-mcast48-dst", mk_iphc(&mc48, b"abc"), f.clone()));
    // hand-written: TF=00 (4 bytes inline), NH inline, HLIM inline, CID, SAC=1 SAM=01, M=0 DAC=1 DAM=10
    v.push(seed("iphc-tf00-cid-context-addrs", vec![
        0x60, 0xd6, 0x12, 0x40, 0x01, 0x23, 0x45, 0x11, 0x2a, 1, 2, 3, 4, 5, 6, 7, 8, 0xab, 0xcd, 0xde, 0xad,
    ], f.clone()));
    // TF=01 (3 bytes), M=1 DAC=1 DAM=00 (6 bytes)
    v.push(seed("iphc-tf01-mcast-context", vec![0x6f, 0x3c, 0xc1, 0x23, 0x45, 1, 2, 3, 4, 5, 6, 0x99], f.clone()));
    // TF=10 (1 byte), everything else elided
    v.push(seed("iphc-tf10", vec![0x77, 0x33, 0x2e, 0xe0, 0x00], f));
    v
}

fn seeds_nhc_ext() -> Vec<Seed> {
    let f0 = vec![fbits("nhc-dispatch", 0, 1, 4, 4, 1), fbits("nhc-eid", 0, 1, 1, 3, 1), fbits("nhc-nh", 0, 1, 0, 1, 1), f8("nhc-byte0", 0)];
    let with = |len_at: usize| {
        let mut f = f0.clone();
        f.push(f8("nhc-ext-length", len_at));
        f
    };
    let r = SixlowpanExtHeaderRepr { ext_header_id: SixlowpanExtHeaderId::HopByHopHeader, next_header: SixlowpanNextHeader::Compressed, length: 6 };
    let mut e = vec![0u8; r.buffer_len() + 6];
    let hl = r.buffer_len();
    r.emit(&mut SixlowpanExtHeaderPacket::new_unchecked(&mut e[..hl]));
    e[hl..].copy_from_slice(&[5, 2, 0, 0, 1, 0]);
    vec![
        seed("nhc-routing-nh-inline", vec![0xe2, 0x3a, 0x6, 0x3, 0x0, 0xff, 0x0, 0x0, 0x0], with(2)),
        seed("nhc-routing-nh-elided", vec![0xe3, 0x06, 0x03, 0x00, 0xff, 0x00, 0x00, 0x00], with(1)),
        seed("nhc-source-routing", vec![
            0xe3, 0x1e, 0x03, 0x03, 0x99, 0x30, 0x00, 0x00, 0x05, 0x00, 0x05, 0x00, 0x05, 0x00, 0x05, 0x06, 0x00, 0x06, 0x00, 0x06, 0x00, 0x06,
            0x02, 0x00, 0x02, 0x00, 0x02, 0x00, 0x02, 0x00, 0x00, 0x00,
        ], with(1)),
        seed("nhc-hbh-emitted+next", {
            e.extend_from_slice(&[0xf0, 0x16, 0x2e, 0x22, 0x3d, 0x28, 0xc4]);
            e
        }, with(1)),
        seed("nhc-empty-ext", vec![0xe1, 0x00], with(1)),
    ]
}

fn mk_nhc_udp(src_port: u16, dst_port: u16, payload: &[u8]) -> Vec<u8> {
    let r = SixlowpanUdpNhcRepr(UdpRepr { src_port, dst_port });
    let mut buf = vec![0u8; r.header_len() + payload.len()];
    r.emit(&mut SixlowpanUdpNhcPacket::new_unchecked(&mut buf[..]), &a6s(), &a6d(), payload.len(), |p| p.copy_from_slice(payload), &ChecksumCapabilities::default());
    buf
}

fn seeds_nhc_udp() -> Vec<Seed> {
    let f = vec![fbits("nhc-udp-dispatch", 0, 1, 3, 5, 1), fbits("nhc-udp-c", 0, 1, 2, 1, 1), fbits("nhc-udp-p", 0, 1, 0, 2, 1), f8("nhc-byte0", 0)];
    vec![
        seed("nhc-udp-inline-ports", vec![0xf0, 0x16, 0x2e, 0x22, 0x3d, 0x28, 0xc4], f.clone()),
        seed("nhc-udp-emitted-full-ports", mk_nhc_udp(5678, 8765, b"hello"), f.clone()),
        seed("nhc-udp-emitted-src-compressed", mk_nhc_udp(0xf011, 8765, b"hello"), f.clone()),
        seed("nhc-udp-emitted-dst-compressed", mk_nhc_udp(5678, 0xf022, b"hello"), f.clone()),
        seed("nhc-udp-emitted-both-compressed", mk_nhc_udp(0xf0b1, 0xf0b0, b"hello"), f.clone()),
        seed("nhc-udp-checksum-elided", vec![0xf7, 0x12, 1, 2, 3], f),
    ]
}

fn seeds_frag() -> Vec<Seed> {
    let f = vec![fbits("frag-dispatch", 0, 1, 3, 5, 1), fbits("frag-datagram-size", 0, 2, 0, 11, 1), f16("frag-tag", 2), f8s("frag-offset", 4, 8), f8("frag-byte0", 0)];
    let r1 = SixlowpanFragRepr::FirstFragment { size: 307, tag: 0x3f };
    let mut a = vec![0u8; r1.buffer_len()];
    r1.emit(&mut SixlowpanFragPacket::new_unchecked(&mut a[..]));
    a.extend_from_slice(&[0x6e, 0x33, 0x02, 0x35, 0x3d, 0xf0, 0xd2, 0x5f, 0x1b, 0x39, 0xb4, 0x6b]);
    let r2 = SixlowpanFragRepr::Fragment { size: 307, tag: 0x3f, offset: 17 };
    let mut b = vec![0u8; r2.buffer_len()];
    r2.emit(&mut SixlowpanFragPacket::new_unchecked(&mut b[..]));
    b.extend_from_slice(b"utrum at, tristique");
    vec![
        seed("frag-first", a, f.clone()),
        seed("frag-next", b, f.clone()),
        seed("frag-first-bare", vec![0xc0, 0xff, 0xab, 0xcd], f.clone()),
        seed("frag-next-bare", vec![0xe0, 0xff, 0xab, 0xcd, 0xcc], f),
    ]
}

// ------------------------------------------------------------------ type table, parts

fn types() -> &'static Vec<TypeDef> {
    static T: OnceLock<Vec<TypeDef>> = OnceLock::new();
    T.get_or_init(|| {
        let t = vec![
            TypeDef { name: "eth", hdr: 14, seeds: seeds_eth(), run: run_eth },
            TypeDef { name: "arp", hdr: 28, seeds: seeds_arp(), run: run_arp },
            TypeDef { name: "ipv4", hdr: 20, seeds: seeds_ipv4(), run: run_ipv4 },
            TypeDef { name: "ipv6", hdr: 40, seeds: seeds_ipv6(), run: run_ipv6 },
            TypeDef { name: "ipv6ext", hdr: 8, seeds: seeds_ipv6ext(), run: run_ipv6ext },
            TypeDef { name: "ipv6hbh", hdr: 6, seeds: seeds_ipv6hbh(), run: run_ipv6hbh },
            TypeDef { name: "ipv6opt", hdr: 2, seeds: seeds_ipv6opt(), run: run_ipv6opt },
            TypeDef { name: "ipv6frag", hdr: 6, seeds: seeds_ipv6frag(), run: run_ipv6frag },
            TypeDef { name: "ipv6routing", hdr: 6, seeds: seeds_ipv6routing(), run: run_ipv6routing },
            TypeDef { name: "icmpv4", hdr: 8, seeds: seeds_icmpv4(), run: run_icmpv4 },
            TypeDef { name: "icmpv6", hdr: 8, seeds: seeds_icmpv6(), run: run_icmpv6 },
            TypeDef { name: "ndiscopt", hdr: 8, seeds: seeds_ndiscopt(), run: run_ndiscopt },
            TypeDef { name: "mldrec", hdr: 20, seeds: seeds_mldrec(), run: run_mldrec },
            TypeDef { name: "igmp", hdr: 8, seeds: seeds_igmp(), run: run_igmp },
            TypeDef { name: "udp", hdr: 8, seeds: seeds_udp(), run: run_udp },
            TypeDef { name: "tcp", hdr: 20, seeds: seeds_tcp(), run: run_tcp },
            TypeDef { name: "tcpopt", hdr: 2, seeds: seeds_tcpopt(), run: run_tcpopt },
            TypeDef { name: "dhcp", hdr: 240, seeds: seeds_dhcp(), run: run_dhcp },
            TypeDef { name: "dns", hdr: 12, seeds: seeds_dns(), run: run_dns },
            TypeDef { name: "ieee802154", hdr: 3, seeds: seeds_ieee802154(), run: run_ieee802154 },
            TypeDef { name: "iphc", hdr: 2, seeds: seeds_iphc(), run: run_iphc },
            TypeDef { name: "nhc_ext", hdr: 2, seeds: seeds_nhc_ext(), run: run_nhc_ext },
            TypeDef { name: "nhc_udp", hdr: 5, seeds: seeds_nhc_udp(), run: run_nhc_udp },
            TypeDef { name: "frag", hdr: 4, seeds: seeds_frag(), run: run_frag },
        ];
        // self check of the seed table (a wrong seed is a bug of this module):
        // every seed must be non-empty and accepted by its own new_checked / parser.
        // Failures found on unmodified seeds are left to the checks themselves.
        for (ti, ty) in t.iter().enumerate() {
            assert!(!ty.seeds.is_empty(), "no seeds for {}", ty.name);
            for (si, s) in ty.seeds.iter().enumerate() {
                assert!(!s.bytes.is_empty() && s.bytes.len() <= 2048, "bad seed length {}/{}", ty.name, s.name);
                // the unmodified seed = its truncation at full length in the seed_mut replay form
                vkit::hang::arm_tape(&[ti as u64, si as u64, 0, s.bytes.len() as u64, 0, 0], "C07", "seed_mut", ty.name, HANG_KEY, HANG_CPU_MS);
                let (out, _) = collect(ty, &s.bytes);
                vkit::hang::disarm();
                assert!(out.ok, "seed {}/{} is not accepted by new_checked", ty.name, s.name);
                for f in &s.fields {
                    assert!(f.off + f.nbytes as usize <= s.bytes.len(), "field {} outside seed {}/{}", f.name, ty.name, s.name);
                    assert!(f.shift as usize + f.bits as usize <= 8 * f.nbytes as usize, "field {} wider than its bytes", f.name);
                }
            }
        }
        t
    })
}

macro_rules! type_cases {
    ($($fname:ident => $name:expr),* $(,)?) => {
        $( fn $fname(src: &mut Src, ctx: &mut Ctx) -> Result<(), Fail> { run_type($name, src, ctx) } )*
    };
}

type_cases! {
    case_eth => "eth", case_arp => "arp", case_ipv4 => "ipv4", case_ipv6 => "ipv6", case_ipv6ext => "ipv6ext",
    case_ipv6hbh => "ipv6hbh", case_ipv6opt => "ipv6opt", case_ipv6frag => "ipv6frag",
    case_ipv6routing => "ipv6routing", case_icmpv4 => "icmpv4", case_icmpv6 => "icmpv6",
    case_ndiscopt => "ndiscopt", case_mldrec => "mldrec", case_igmp => "igmp", case_udp => "udp",
    case_tcp => "tcp", case_tcpopt => "tcpopt", case_dhcp => "dhcp", case_dns => "dns",
    case_ieee802154 => "ieee802154", case_iphc => "iphc", case_nhc_ext => "nhc_ext",
    case_nhc_udp => "nhc_udp", case_frag => "frag",
}

pub fn prop() -> Prop {
    let q = 10_000;
    let t = 1_000_000;
    let p = |name: &'static str, case: vkit::runner::CaseFn| Part { name, case, quick: q, thorough: t };
    Prop {
        id: "C07",
        parts: vec![
            // uniformly random bytes of any length for a drawn type; also the replay form of what
            // the coverage-guided fuzz target finds
            Part { name: "raw", case: case_raw, quick: 2 * q, thorough: 2 * t },
            p("eth", case_eth),
            p("arp", case_arp),
            p("ipv4", case_ipv4),
            p("ipv6", case_ipv6),
            p("ipv6ext", case_ipv6ext),
            p("ipv6hbh", case_ipv6hbh),
            p("ipv6opt", case_ipv6opt),
            p("ipv6frag", case_ipv6frag),
            p("ipv6routing", case_ipv6routing),
            p("icmpv4", case_icmpv4),
            p("icmpv6", case_icmpv6),
            p("ndiscopt", case_ndiscopt),
            p("mldrec", case_mldrec),
            p("igmp", case_igmp),
            p("udp", case_udp),
            p("tcp", case_tcp),
            p("tcpopt", case_tcpopt),
            p("dhcp", case_dhcp),
            p("dns", case_dns),
            p("ieee802154", case_ieee802154),
            p("iphc", case_iphc),
            p("nhc_ext", case_nhc_ext),
            p("nhc_udp", case_nhc_udp),
            p("frag", case_frag),
            p("seed_mut", seed_mut),
        ],
        phases: vec![exhaustive_phase],
        smoltcp_panic_is_violation: true,
        rule: "per wire view type: byte strings of length 0..=2048 from (a) random bytes with lengths biased to the header size, (b) a valid packet truncated at a drawn offset, (c) a valid packet with 1-3 length/offset/count/mode fields set to boundary values or byte noise; plus the exhaustive sweep of every truncation and every single-byte substitution (6 boundary values, first 64 bytes) of every seed packet. On new_checked Ok every accessor applicable to the packet's own message type, Repr::parse (default and ignored checksum capabilities), Display and PrettyPrinter are called under catch_unwind. A case is non-trivial when new_checked returned Ok; distinct by digest of the bytes per type",
        assumptions: vec![
            "accessors documented as valid only for another message type / option type, or documented to panic (Ipv6Option::data_len on Pad1), are not called; 802.15.4 security getters only with the security-enabled bit",
            "verify_checksum/Repr::parse of UDP and TCP are called with source and destination of the same address family",
            "a genuinely non-terminating call inside smoltcp would hang the run rather than be reported (iteration caps and the 5 s limit only see calls that return)",
            "wire types behind cargo features that the harness build does not enable (proto-rpl, proto-ipsec-ah, proto-ipsec-esp) are not exported and not covered",
        ],
    }
}


/// Entry for the coverage-guided fuzz target (/verif/fuzz): first byte = view type, the rest
/// is the byte string handed to the checked constructor and the accessor battery. A
/// violation is written as an ordinary `seed_mut`-independent tape replay of part `raw`.
#[allow(dead_code)]
pub fn fuzz_one(data: &[u8]) {
    if data.is_empty() {
        return;
    }
    let ts = types();
    let ti = data[0] as usize % ts.len();
    let t = &ts[ti];
    let body = &data[1..data.len().min(2049)];
    let mut tape: Vec<u64> = vec![ti as u64, body.len() as u64];
    tape.extend(body.iter().map(|b| *b as u64));
    vkit::hang::arm_tape(&tape, "C07", "raw", t.name, HANG_KEY, HANG_CPU_MS);
    let (_, fails) = collect(t, body);
    vkit::hang::disarm();
    let open = vkit::runner::open_keys("C07");
    for f in fails {
        if open.iter().any(|k| key_matches(k, &f.key)) {
            continue;
        }
        vkit::runner::fuzz_violation("C07", "raw", &tape, &f);
    }
}

/// Replay form of a fuzz finding: [type index, length, bytes...].
fn case_raw(src: &mut Src, ctx: &mut Ctx) -> Result<(), Fail> {
    let ts = types();
    let ti = src.usize(0, ts.len() - 1);
    let t = &ts[ti];
    let n = src.usize(0, 2048);
    let mut data = Vec::with_capacity(n);
    for _ in 0..n {
        data.push(src.u8());
    }
    vkit::hang::arm(src, "C07", "raw", t.name, HANG_KEY, HANG_CPU_MS);
    let r = evaluate(t, &data, 0, ctx);
    vkit::hang::disarm();
    r
}

/// Seed corpus for the fuzz target: every seed packet behind its type byte.
#[allow(dead_code)]
pub fn fuzz_seeds(dir: &str) -> usize {
    let mut n = 0;
    for (ti, t) in types().iter().enumerate() {
        for (si, s) in t.seeds.iter().enumerate() {
            let mut b = vec![ti as u8];
            b.extend_from_slice(&s.bytes);
            if std::fs::write(format!("{}/c07-{}-{:02}", dir, t.name, si), &b).is_ok() {
                n += 1;
            }
        }
    }
    n
}
