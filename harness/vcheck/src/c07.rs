//! C07 - checked packet views never panic on arbitrary bytes.
//!
//! For every Packet/Frame/Header/Option view type exported by `smoltcp::wire`
//! one part generates byte strings (random / truncated valid packet / valid
//! packet with boundary-valued fields), builds the checked view and, when that
//! succeeds, calls every read accessor that applies to the packet's own message
//! type, the matching `Repr::parse`, the payload accessor, `Display` and the
//! pretty printer. Each call into smoltcp runs under `guarded`, a panic is a
//! failure keyed by `panic_key`.
//!
//! Accessor applicability (derived from the accessor docs and from what
//! smoltcp's own `Repr::parse` / iface code call):
//!  * Icmpv4/Icmpv6 `echo_*` only for echo request/reply; `pkt_too_big_mtu`
//!    only for PktTooBig; `param_problem_ptr` only for ParamProblem; the NDISC
//!    getters only for the NDISC type `NdiscRepr::parse` reads them for; MLD
//!    getters only for MldQuery / MldReport.
//!  * Ipv6Option `data_len`/`data` are documented to panic on Pad1: not called.
//!  * Ipv6RoutingHeader `home_address` only for Type2, `cmpr_*`/`pad`/
//!    `addresses` only for Rpl ("may panic if not ...").
//!  * NdiscOption type specific getters only for the option's own type.
//!  * Ieee802154Frame auxiliary-security-header getters only when
//!    `security_enabled()` (there is no such header otherwise).
//!  * verify_checksum / Repr::parse of UDP/TCP only with src/dst of one family.
//!  * DNS `parse_name` iterators are drained like `socket::dns` does: stop at
//!    the first `Err`/`None`.

use serde_json::json;
use smoltcp::phy::ChecksumCapabilities;
use smoltcp::time::Duration;
use smoltcp::wire::*;
use std::hint::black_box;
use std::sync::OnceLock;
use vkit::runner::{guarded, key_matches, panic_in_smoltcp, panic_key, Fail, Part, PhaseResult, Prop, RunEnv, Tier};
use vkit::{Ctx, Src};

// ------------------------------------------------------------------ guarded battery runner

/// Collects the failures of one battery run. Every call into smoltcp goes
/// through `call`, so the panic location is captured per call.
pub struct Bat {
    ty: &'static str,
    fails: Vec<Fail>,
}

impl Bat {
    fn new(ty: &'static str) -> Bat {
        Bat { ty, fails: vec![] }
    }
    fn push(&mut self, f: Fail) {
        if !self.fails.iter().any(|x| x.key == f.key) {
            self.fails.push(f);
        }
    }
    /// Run one call into smoltcp. None = it panicked (failure recorded).
    fn call<T>(&mut self, what: &'static str, f: impl FnOnce() -> T) -> Option<T> {
        // wall clock is used for hang detection only, never for decisions that
        // influence generation
        let t0 = std::time::Instant::now();
        let r = guarded(f);
        let dt = t0.elapsed();
        if dt.as_secs() >= 5 {
            self.push(Fail::new(format!("{}:hang", self.ty), format!("{}::{} took {:?}", self.ty, what, dt)));
        }
        match r {
            Ok(v) => Some(v),
            Err(p) => {
                if !panic_in_smoltcp(&p) {
                    // a bug of this module, not of smoltcp: surface as harness panic
                    panic!("harness bug while calling {}::{}: {} at {}:{}", self.ty, what, p.msg, p.file, p.line);
                }
                self.push(Fail::new(
                    panic_key(&p),
                    format!("{}::{} panicked at {}:{}: {}", self.ty, what, p.file, p.line, p.msg),
                ));
                None
            }
        }
    }
    fn looped(&mut self, key: &'static str, what: &str) {
        self.push(Fail::new(key, format!("{}: {} iterated more often than the buffer has bytes", self.ty, what)));
    }
}

/// Outcome of a battery: did `new_checked` accept, did the Repr parser accept.
#[derive(Clone, Copy, Default)]
pub struct Out {
    ok: bool,
    parse: Option<bool>,
}

impl Out {
    fn rejected() -> Out {
        Out { ok: false, parse: None }
    }
    fn accepted(parse: Option<bool>) -> Out {
        Out { ok: true, parse }
    }
}

fn any_ok<T, E>(rs: &[Option<Result<T, E>>]) -> Option<bool> {
    let mut seen = false;
    for r in rs.iter().flatten() {
        seen = true;
        if r.is_ok() {
            return Some(true);
        }
    }
    if seen {
        Some(false)
    } else {
        None
    }
}

macro_rules! acc {
    ($b:ident, $p:ident; $($m:ident),* $(,)?) => {
        $( $b.call(stringify!($m), || { black_box($p.$m()); }); )*
    };
}

// ------------------------------------------------------------------ fields of seed packets

/// A (bit-)field inside a seed packet that is worth setting to boundary values.
#[derive(Clone, Copy, Debug)]
pub struct F {
    name: &'static str,
    off: usize,
    nbytes: u8,
    shift: u8,
    bits: u8,
    le: bool,
    /// the field counts units of `scale` bytes
    scale: u16,
}

const fn f8(name: &'static str, off: usize) -> F {
    F { name, off, nbytes: 1, shift: 0, bits: 8, le: false, scale: 1 }
}
const fn f8s(name: &'static str, off: usize, scale: u16) -> F {
    F { name, off, nbytes: 1, shift: 0, bits: 8, le: false, scale }
}
const fn f16(name: &'static str, off: usize) -> F {
    F { name, off, nbytes: 2, shift: 0, bits: 16, le: false, scale: 1 }
}
const fn f32_(name: &'static str, off: usize) -> F {
    F { name, off, nbytes: 4, shift: 0, bits: 32, le: false, scale: 1 }
}
const fn fbits(name: &'static str, off: usize, nbytes: u8, shift: u8, bits: u8, scale: u16) -> F {
    F { name, off, nbytes, shift, bits, le: false, scale }
}
const fn fbits_le(name: &'static str, off: usize, nbytes: u8, shift: u8, bits: u8) -> F {
    F { name, off, nbytes, shift, bits, le: true, scale: 1 }
}

fn field_get(buf: &[u8], f: &F) -> Option<u64> {
    let n = f.nbytes as usize;
    if f.off + n > buf.len() {
        return None;
    }
    let mut cur: u64 = 0;
    for i in 0..n {
        if f.le {
            cur |= (buf[f.off + i] as u64) << (8 * i);
        } else {
            cur = (cur << 8) | buf[f.off + i] as u64;
        }
    }
    let mask = if f.bits >= 64 { u64::MAX } else { (1u64 << f.bits) - 1 };
    Some((cur >> f.shift) & mask)
}

fn field_set(buf: &mut [u8], f: &F, v: u64) -> bool {
    let n = f.nbytes as usize;
    if f.off + n > buf.len() {
        return false;
    }
    let mut cur: u64 = 0;
    for i in 0..n {
        if f.le {
            cur |= (buf[f.off + i] as u64) << (8 * i);
        } else {
            cur = (cur << 8) | buf[f.off + i] as u64;
        }
    }
    let mask = ((1u64 << f.bits) - 1) << f.shift;
    let new = (cur & !mask) | ((v << f.shift) & mask);
    for i in 0..n {
        let byte = if f.le { (new >> (8 * i)) & 0xff } else { (new >> (8 * (n - 1 - i))) & 0xff };
        buf[f.off + i] = byte as u8;
    }
    true
}

pub struct Seed {
    name: &'static str,
    bytes: Vec<u8>,
    fields: Vec<F>,
}

fn seed(name: &'static str, bytes: Vec<u8>, fields: Vec<F>) -> Seed {
    Seed { name, bytes, fields }
}

pub struct TypeDef {
    name: &'static str,
    /// typical header size; random lengths are biased to it
    hdr: usize,
    seeds: Vec<Seed>,
    run: fn(&mut Bat, &[u8]) -> Out,
}

// ------------------------------------------------------------------ generation

const SUBST: [u8; 6] = [0x00, 0x01, 0x7f, 0x80, 0xfe, 0xff];

fn hex(d: &[u8]) -> String {
    let mut s = String::new();
    for (i, b) in d.iter().enumerate() {
        if i >= 320 {
            s.push_str(&format!(" ... ({} bytes total)", d.len()));
            break;
        }
        if i > 0 && i % 4 == 0 {
            s.push(' ');
        }
        s.push_str(&format!("{:02x}", b));
    }
    s
}

fn boundary_value(src: &mut Src, f: &F, cur: u64, hdr: usize, buflen: usize) -> u64 {
    let max = (1u64 << f.bits) - 1;
    let sc = f.scale.max(1) as u64;
    let rem = buflen.saturating_sub(f.off) as u64;
    let hdr = hdr as u64;
    let bl = buflen as u64;
    let off = f.off as u64;
    let cands = [
        0,
        1,
        max - 1.min(max),
        max,
        (hdr / sc).saturating_sub(1),
        hdr / sc,
        hdr / sc + 1,
        (bl / sc).saturating_sub(1),
        bl / sc,
        bl / sc + 1,
        (rem / sc).saturating_sub(1),
        rem / sc,
        rem / sc + 1,
        cur.saturating_sub(1),
        cur + 1,
        2,
        max / 2,
        max / 2 + 1,
        off.saturating_sub(1),
        off,
        off + 1,
        off + f.nbytes as u64,
    ];
    let v = match src.weighted(&[14, 1]) {
        0 => *src.pick(&cands),
        _ => src.range(0, max),
    };
    v.min(max)
}

fn noise(src: &mut Src, data: &mut [u8]) -> Option<String> {
    if data.is_empty() {
        return None;
    }
    let off = match src.weighted(&[3, 1]) {
        0 => src.usize(0, (data.len() - 1).min(63)),
        _ => src.usize(0, data.len() - 1),
    };
    let rem = data.len() - off;
    let old = data[off];
    let new: u8 = match src.weighted(&[6, 4, 2, 2]) {
        0 => SUBST[src.usize(0, 5)],
        1 => {
            // the byte as a length/offset relative to the buffer
            let c = [
                rem.saturating_sub(1),
                rem,
                rem + 1,
                rem.saturating_sub(2),
                rem / 4,
                rem / 4 + 1,
                rem / 8,
                rem / 8 + 1,
                data.len(),
                data.len() + 1,
                data.len().saturating_sub(1),
                off,
                off + 1,
                off + 2,
            ];
            (*src.pick(&c)).min(255) as u8
        }
        2 => old ^ (1u8 << src.draw(7)),
        _ => src.u8(),
    };
    data[off] = new;
    Some(format!("byte {} : {:#04x} -> {:#04x}", off, old, new))
}

fn random_len(src: &mut Src, hdr: usize) -> usize {
    match src.weighted(&[4, 2, 2, 1]) {
        0 => src.usize(hdr.saturating_sub(2), (hdr + 2).min(2048)),
        1 => src.usize(0, 64),
        2 => src.usize(hdr, (hdr + 64).min(2048)),
        _ => src.biased(0, 2048) as usize,
    }
}

fn gen_input(t: &TypeDef, src: &mut Src, ctx: &mut Ctx) -> Vec<u8> {
    let source = src.weighted(&[2, 3, 5]);
    match source {
        0 => {
            let n = random_len(src, t.hdr);
            let mut d = src.bytes(n);
            // half of the time start from the first bytes of a valid packet so that
            // dispatch/type bytes are plausible
            if !t.seeds.is_empty() && src.chance(1, 2) {
                let s = &t.seeds[src.usize(0, t.seeds.len() - 1)];
                let k = src.usize(0, s.bytes.len().min(d.len()).min(4));
                d[..k].copy_from_slice(&s.bytes[..k]);
            }
            ctx.label(&format!("{}:src-random", t.name));
            ctx.note(|| format!("source: {} random bytes", n));
            d
        }
        1 => {
            let si = src.usize(0, t.seeds.len() - 1);
            let s = &t.seeds[si];
            let cut = src.usize(0, s.bytes.len());
            ctx.label(&format!("{}:src-trunc", t.name));
            ctx.note(|| format!("source: valid packet '{}' ({} bytes) truncated to {}", s.name, s.bytes.len(), cut));
            s.bytes[..cut].to_vec()
        }
        _ => {
            let si = src.usize(0, t.seeds.len() - 1);
            let s = &t.seeds[si];
            let mut d = s.bytes.clone();
            ctx.label(&format!("{}:src-field", t.name));
            ctx.note(|| format!("source: valid packet '{}' ({} bytes) with mutated fields", s.name, s.bytes.len()));
            // optional change of the buffer length first (so that "buffer length +-1"
            // values refer to the final buffer)
            match src.weighted(&[6, 1, 1]) {
                0 => {}
                1 => {
                    let extra = src.usize(1, 16);
                    let tail = src.bytes(extra);
                    d.extend_from_slice(&tail);
                    ctx.note(|| format!("  + {} trailing bytes", extra));
                }
                _ => {
                    let cut = src.usize(0, d.len().min(8));
                    d.truncate(d.len() - cut);
                    ctx.note(|| format!("  - {} bytes cut from the end", cut));
                }
            }
            let mut n = 0;
            loop {
                let use_field = !s.fields.is_empty() && src.weighted(&[3, 1]) == 0;
                if use_field {
                    let f = &s.fields[src.usize(0, s.fields.len() - 1)];
                    if let Some(cur) = field_get(&d, f) {
                        let v = boundary_value(src, f, cur, t.hdr, d.len());
                        field_set(&mut d, f, v);
                        ctx.label(&format!("{}:mut:{}", t.name, f.name));
                        ctx.note(|| format!("  field {} (offset {}): {} -> {}", f.name, f.off, cur, v));
                    }
                } else if let Some(desc) = noise(src, &mut d) {
                    ctx.label(&format!("{}:mut:noise", t.name));
                    ctx.note(|| format!("  noise {}", desc));
                }
                n += 1;
                if n >= 3 || !src.more(1, 3) {
                    break;
                }
            }
            d
        }
    }
}

/// Run the battery of `t` on `data`; returns the outcome and all distinct failures.
fn collect(t: &TypeDef, data: &[u8]) -> (Out, Vec<Fail>) {
    let mut b = Bat::new(t.name);
    let out = (t.run)(&mut b, data);
    (out, b.fails)
}

/// `skip` = number of distinct (not yet known) failure keys to pass over before
/// reporting one; lets the search report a second defect that only shows on
/// inputs that also trigger a first one. Value 0 (shrink target) reports the first.
fn evaluate(t: &TypeDef, data: &[u8], skip: usize, ctx: &mut Ctx) -> Result<(), Fail> {
    ctx.note(|| format!("{} view over {} bytes: {}", t.name, data.len(), hex(data)));
    let (out, fails) = collect(t, data);
    if out.ok {
        ctx.nontrivial = true;
        ctx.digest.bytes(data);
        ctx.label(&format!("{}:ok", t.name));
    }
    match out.parse {
        Some(true) => ctx.label(&format!("{}:parse-ok", t.name)),
        Some(false) => ctx.label(&format!("{}:parse-err", t.name)),
        None => {}
    }
    ctx.note(|| format!("new_checked accepted: {}, Repr parse: {:?}", out.ok, out.parse));
    let mut skipped = 0;
    for f in fails {
        if ctx.is_known(&f.key) {
            let _ = ctx.report(f);
            continue;
        }
        if skipped < skip {
            skipped += 1;
            continue;
        }
        return Err(f);
    }
    Ok(())
}

fn run_type(name: &'static str, src: &mut Src, ctx: &mut Ctx) -> Result<(), Fail> {
    let t = types().iter().find(|t| t.name == name).expect("type table");
    let skip = src.weighted(&[13, 1, 1, 1]);
    let data = gen_input(t, src, ctx);
    evaluate(t, &data, skip, ctx)
}

/// replay form of one exhaustively enumerated case:
/// [type index, seed index, kind (0 truncate / 1 substitute), offset-or-length, byte value, skip]
fn seed_mut(src: &mut Src, ctx: &mut Ctx) -> Result<(), Fail> {
    let ts = types();
    let ti = src.usize(0, ts.len() - 1);
    let t = &ts[ti];
    let si = src.usize(0, t.seeds.len() - 1);
    let s = &t.seeds[si];
    let kind = src.usize(0, 1);
    let data = if kind == 0 {
        let cut = src.usize(0, s.bytes.len());
        ctx.note(|| format!("seed '{}' of {} truncated to {} of {} bytes", s.name, t.name, cut, s.bytes.len()));
        s.bytes[..cut].to_vec()
    } else {
        let off = src.usize(0, s.bytes.len() - 1);
        let v = src.u8();
        ctx.note(|| format!("seed '{}' of {}: byte {} set to {:#04x} (was {:#04x})", s.name, t.name, off, v, s.bytes[off]));
        let mut d = s.bytes.clone();
        d[off] = v;
        d
    };
    let skip = src.usize(0, 7);
    evaluate(t, &data, skip, ctx)
}

fn exhaustive_phase(env: &RunEnv) -> PhaseResult {
    let ts = types();
    let mut pr = PhaseResult {
        name: "every truncation and every single-byte substitution of every seed packet".into(),
        exhaustive: true,
        ..Default::default()
    };
    let thorough = env.tier == Tier::Thorough;
    let mut excluded = 0u64;
    let mut nseeds = 0u64;
    let mut run = |ti: usize, si: usize, kind: u64, off: usize, val: u8, data: &[u8], pr: &mut PhaseResult| {
        let t = &ts[ti];
        let (out, fails) = collect(t, data);
        pr.evaluations += 1;
        if out.ok {
            pr.nontrivial += 1;
        }
        let mut idx = 0u64;
        for f in fails {
            if env.known_open.iter().any(|k| key_matches(k, &f.key)) {
                excluded += 1;
                continue;
            }
            if !pr.failures.iter().any(|x| x.2.key == f.key) {
                pr.failures.push(("seed_mut".to_string(), vec![ti as u64, si as u64, kind, off as u64, val as u64, idx], f));
            }
            idx += 1;
        }
    };
    for (ti, t) in ts.iter().enumerate() {
        for (si, s) in t.seeds.iter().enumerate() {
            nseeds += 1;
            for cut in 0..=s.bytes.len() {
                run(ti, si, 0, cut, 0, &s.bytes[..cut], &mut pr);
            }
            let lim = if thorough { s.bytes.len() } else { s.bytes.len().min(64) };
            let mut d = s.bytes.clone();
            for off in 0..lim {
                let old = d[off];
                if thorough && off < 24 {
                    for v in 0..=255u8 {
                        d[off] = v;
                        run(ti, si, 1, off, v, &d, &mut pr);
                    }
                } else {
                    for v in SUBST {
                        d[off] = v;
                        run(ti, si, 1, off, v, &d, &mut pr);
                    }
                }
                d[off] = old;
            }
        }
    }
    pr.extra = json!({"types": ts.len(), "seed_packets": nseeds, "excluded_known": excluded,
        "substituted_values": if thorough { "all 256 on the first 24 bytes, 6 boundary values elsewhere, every offset" } else { "6 boundary values on the first 64 bytes" }});
    pr.samples.push(json!({"phase": "seed mutations", "example_seed": format!("{} '{}': {}", ts[0].name, ts[0].seeds[0].name, hex(&ts[0].seeds[0].bytes))}));
    pr
}

// ------------------------------------------------------------------ addresses used for checksums / parsers

fn a4s() -> Ipv4Address {
    Ipv4Address::new(10, 0, 0, 1)
}
fn a4d() -> Ipv4Address {
    Ipv4Address::new(10, 0, 0, 2)
}
fn a6s() -> Ipv6Address {
    Ipv6Address::new(0xfe80, 0, 0, 0, 0, 0, 0, 1)
}
fn a6d() -> Ipv6Address {
    Ipv6Address::new(0xfe80, 0, 0, 0, 0, 0, 0, 2)
}
fn caps2() -> [ChecksumCapabilities; 2] {
    [ChecksumCapabilities::default(), ChecksumCapabilities::ignored()]
}

// ------------------------------------------------------------------ batteries (one per view type)

fn run_eth(b: &mut Bat, d: &[u8]) -> Out {
    let Some(Ok(p)) = b.call("new_checked", || EthernetFrame::new_checked(d)) else {
        return Out::rejected();
    };
    acc!(b, p; dst_addr, src_addr, ethertype, payload);
    b.call("Display", || format!("{}", p));
    let r = b.call("Repr::parse", || EthernetRepr::parse(&p));
    b.call("PrettyPrinter", || format!("{}", PrettyPrinter::<EthernetFrame<&[u8]>>::new("", &d)));
    Out::accepted(any_ok(&[r]))
}

fn run_arp(b: &mut Bat, d: &[u8]) -> Out {
    let Some(Ok(p)) = b.call("new_checked", || ArpPacket::new_checked(d)) else {
        return Out::rejected();
    };
    acc!(b, p; hardware_type, protocol_type, hardware_len, protocol_len, operation,
        source_hardware_addr, source_protocol_addr, target_hardware_addr, target_protocol_addr);
    b.call("Display", || format!("{}", p));
    let r = b.call("Repr::parse", || ArpRepr::parse(&p));
    b.call("PrettyPrinter", || format!("{}", PrettyPrinter::<ArpPacket<&[u8]>>::new("", &d)));
    Out::accepted(any_ok(&[r]))
}

fn run_ipv4(b: &mut Bat, d: &[u8]) -> Out {
    let Some(Ok(p)) = b.call("new_checked", || Ipv4Packet::new_checked(d)) else {
        return Out::rejected();
    };
    acc!(b, p; version, header_len, dscp, ecn, total_len, ident, dont_frag, more_frags, frag_offset,
        hop_limit, next_header, checksum, src_addr, dst_addr, verify_checksum, get_key, payload);
    b.call("Display", || format!("{}", p));
    let mut rs = vec![];
    for c in caps2() {
        rs.push(b.call("Repr::parse", || Ipv4Repr::parse(&p, &c)));
    }
    b.call("PrettyPrinter", || format!("{}", PrettyPrinter::<Ipv4Packet<&[u8]>>::new("", &d)));
    Out::accepted(any_ok(&rs))
}

fn run_ipv6(b: &mut Bat, d: &[u8]) -> Out {
    let Some(Ok(p)) = b.call("new_checked", || Ipv6Packet::new_checked(d)) else {
        return Out::rejected();
    };
    acc!(b, p; header_len, version, traffic_class, flow_label, payload_len, total_len, next_header,
        hop_limit, src_addr, dst_addr, payload);
    b.call("Display", || format!("{}", p));
    let r = b.call("Repr::parse", || Ipv6Repr::parse(&p));
    b.call("PrettyPrinter", || format!("{}", PrettyPrinter::<Ipv6Packet<&[u8]>>::new("", &d)));
    Out::accepted(any_ok(&[r]))
}

fn run_ipv6ext(b: &mut Bat, d: &[u8]) -> Out {
    let Some(Ok(p)) = b.call("new_checked", || Ipv6ExtHeader::new_checked(d)) else {
        return Out::rejected();
    };
    acc!(b, p; next_header, header_len, payload);
    let r = b.call("Repr::parse", || Ipv6ExtHeaderRepr::parse(&p).map(|r| (r.next_header, r.length, r.data.len())));
    Out::accepted(any_ok(&[r]))
}

fn run_ipv6hbh(b: &mut Bat, d: &[u8]) -> Out {
    let Some(Ok(p)) = b.call("new_checked", || Ipv6HopByHopHeader::new_checked(d)) else {
        return Out::rejected();
    };
    acc!(b, p; options);
    let cap = d.len() + 1;
    let looped = b.call("Ipv6OptionsIterator", || {
        let mut n = 0usize;
        for o in Ipv6OptionsIterator::new(p.options()) {
            match o {
                Ok(r) => {
                    black_box(format!("{}", r));
                }
                Err(_) => break,
            }
            n += 1;
            if n > cap {
                return true;
            }
        }
        false
    });
    if looped == Some(true) {
        b.looped("ipv6hbh:options:loop", "Ipv6OptionsIterator");
    }
    let r = b.call("Repr::parse", || Ipv6HopByHopRepr::parse(&p).map(|r| r.buffer_len()));
    Out::accepted(any_ok(&[r]))
}

fn run_ipv6opt(b: &mut Bat, d: &[u8]) -> Out {
    let Some(Ok(p)) = b.call("new_checked", || Ipv6Option::new_checked(d)) else {
        return Out::rejected();
    };
    let ty = b.call("option_type", || p.option_type());
    // data_len()/data() are documented to panic for the 1-byte Pad1 option
    if let Some(ty) = ty {
        if ty != Ipv6OptionType::Pad1 {
            acc!(b, p; data_len, data);
        }
    }
    b.call("Display", || format!("{}", p));
    let r = b.call("Repr::parse", || Ipv6OptionRepr::parse(&p).map(|r| format!("{}", r)));
    Out::accepted(any_ok(&[r]))
}

fn run_ipv6frag(b: &mut Bat, d: &[u8]) -> Out {
    let Some(Ok(p)) = b.call("new_checked", || Ipv6FragmentHeader::new_checked(d)) else {
        return Out::rejected();
    };
    acc!(b, p; frag_offset, more_frags, ident);
    b.call("Display", || format!("{}", p));
    let r = b.call("Repr::parse", || Ipv6FragmentRepr::parse(&p));
    Out::accepted(any_ok(&[r]))
}

fn run_ipv6routing(b: &mut Bat, d: &[u8]) -> Out {
    let Some(Ok(p)) = b.call("new_checked", || Ipv6RoutingHeader::new_checked(d)) else {
        return Out::rejected();
    };
    acc!(b, p; segments_left);
    match b.call("routing_type", || p.routing_type()) {
        Some(Ipv6RoutingType::Type2) => {
            acc!(b, p; home_address);
        }
        Some(Ipv6RoutingType::Rpl) => {
            acc!(b, p; cmpr_i, cmpr_e, pad, addresses);
        }
        _ => {}
    }
    b.call("Display", || format!("{}", p));
    let r = b.call("Repr::parse", || Ipv6RoutingRepr::parse(&p).map(|r| format!("{}", r)));
    Out::accepted(any_ok(&[r]))
}

fn run_icmpv4(b: &mut Bat, d: &[u8]) -> Out {
    let Some(Ok(p)) = b.call("new_checked", || Icmpv4Packet::new_checked(d)) else {
        return Out::rejected();
    };
    acc!(b, p; msg_code, checksum, header_len, verify_checksum, data);
    if let Some(Icmpv4Message::EchoRequest | Icmpv4Message::EchoReply) = b.call("msg_type", || p.msg_type()) {
        acc!(b, p; echo_ident, echo_seq_no);
    }
    b.call("Display", || format!("{}", p));
    let mut rs = vec![];
    for c in caps2() {
        rs.push(b.call("Repr::parse", || Icmpv4Repr::parse(&p, &c).map(|r| format!("{}", r))));
    }
    b.call("PrettyPrinter", || format!("{}", PrettyPrinter::<Icmpv4Packet<&[u8]>>::new("", &d)));
    Out::accepted(any_ok(&rs))
}

fn run_icmpv6(b: &mut Bat, d: &[u8]) -> Out {
    let Some(Ok(p)) = b.call("new_checked", || Icmpv6Packet::new_checked(d)) else {
        return Out::rejected();
    };
    acc!(b, p; msg_code, checksum, header_len, payload);
    b.call("verify_checksum", || p.verify_checksum(&a6s(), &a6d()));
    let mt = b.call("msg_type", || p.msg_type());
    let cap = d.len() + 1;
    if let Some(mt) = mt {
        black_box((mt.is_error(), mt.is_ndisc(), mt.is_mld()));
        match mt {
            Icmpv6Message::EchoRequest | Icmpv6Message::EchoReply => {
                acc!(b, p; echo_ident, echo_seq_no);
            }
            Icmpv6Message::PktTooBig => {
                acc!(b, p; pkt_too_big_mtu);
            }
            Icmpv6Message::ParamProblem => {
                acc!(b, p; param_problem_ptr);
            }
            Icmpv6Message::RouterAdvert => {
                acc!(b, p; current_hop_limit, router_flags, router_lifetime, reachable_time, retrans_time);
            }
            Icmpv6Message::NeighborSolicit => {
                acc!(b, p; target_addr);
            }
            Icmpv6Message::NeighborAdvert => {
                acc!(b, p; neighbor_flags, target_addr);
            }
            Icmpv6Message::Redirect => {
                acc!(b, p; target_addr, dest_addr);
            }
            Icmpv6Message::MldQuery => {
                acc!(b, p; max_resp_code, mcast_addr, s_flag, qrv, qqic, num_srcs);
            }
            Icmpv6Message::MldReport => {
                acc!(b, p; nr_mcast_addr_rcrds);
                // walk the address records the way a listener would
                b.call("MldAddressRecord walk", || {
                    let mut rest = p.payload();
                    let mut n = 0usize;
                    while let Ok(rec) = MldAddressRecord::new_checked(rest) {
                        black_box((rec.record_type(), rec.aux_data_len(), rec.num_srcs(), rec.mcast_addr(), rec.payload().len()));
                        let _ = black_box(MldAddressRecordRepr::parse(&rec));
                        let skip = 20 + rec.num_srcs() as usize * 16 + rec.aux_data_len() as usize * 4;
                        if skip > rest.len() {
                            break;
                        }
                        rest = &rest[skip..];
                        n += 1;
                        if n > cap {
                            break;
                        }
                    }
                });
            }
            _ => {}
        }
        if mt.is_ndisc() {
            b.call("NdiscRepr::parse", || NdiscRepr::parse(&p).map(|r| r.buffer_len()));
        }
        if mt.is_mld() {
            b.call("MldRepr::parse", || MldRepr::parse(&p).map(|r| r.buffer_len()));
        }
    }
    let mut rs = vec![];
    for c in caps2() {
        rs.push(b.call("Repr::parse", || Icmpv6Repr::parse(&a6s(), &a6d(), &p, &c).map(|r| r.buffer_len())));
    }
    Out::accepted(any_ok(&rs))
}

fn run_ndiscopt(b: &mut Bat, d: &[u8]) -> Out {
    let Some(Ok(p)) = b.call("new_checked", || NdiscOption::new_checked(d)) else {
        return Out::rejected();
    };
    acc!(b, p; data_len, data);
    match b.call("option_type", || p.option_type()) {
        Some(NdiscOptionType::SourceLinkLayerAddr | NdiscOptionType::TargetLinkLayerAddr) => {
            acc!(b, p; link_layer_addr);
        }
        Some(NdiscOptionType::Mtu) => {
            acc!(b, p; mtu);
        }
        Some(NdiscOptionType::PrefixInformation) => {
            acc!(b, p; prefix_len, prefix_flags, valid_lifetime, preferred_lifetime, prefix);
        }
        _ => {}
    }
    b.call("Display", || format!("{}", p));
    let r = b.call("Repr::parse", || NdiscOptionRepr::parse(&p).map(|r| (format!("{}", r), r.buffer_len())));
    b.call("PrettyPrinter", || format!("{}", PrettyPrinter::<NdiscOption<&[u8]>>::new("", &d)));
    Out::accepted(any_ok(&[r]))
}

fn run_mldrec(b: &mut Bat, d: &[u8]) -> Out {
    let Some(Ok(p)) = b.call("new_checked", || MldAddressRecord::new_checked(d)) else {
        return Out::rejected();
    };
    acc!(b, p; record_type, aux_data_len, num_srcs, mcast_addr, payload);
    let r = b.call("Repr::parse", || MldAddressRecordRepr::parse(&p).map(|r| r.buffer_len()));
    Out::accepted(any_ok(&[r]))
}

fn run_igmp(b: &mut Bat, d: &[u8]) -> Out {
    let Some(Ok(p)) = b.call("new_checked", || IgmpPacket::new_checked(d)) else {
        return Out::rejected();
    };
    acc!(b, p; msg_type, max_resp_code, checksum, group_addr, verify_checksum);
    b.call("Display", || format!("{}", p));
    let r = b.call("Repr::parse", || IgmpRepr::parse(&p).map(|r| format!("{}", r)));
    b.call("PrettyPrinter", || format!("{}", PrettyPrinter::<IgmpPacket<&[u8]>>::new("", &d)));
    Out::accepted(any_ok(&[r]))
}

fn run_udp(b: &mut Bat, d: &[u8]) -> Out {
    let Some(Ok(p)) = b.call("new_checked", || UdpPacket::new_checked(d)) else {
        return Out::rejected();
    };
    acc!(b, p; src_port, dst_port, len, checksum, payload);
    let (s4, d4) = (IpAddress::Ipv4(a4s()), IpAddress::Ipv4(a4d()));
    let (s6, d6) = (IpAddress::Ipv6(a6s()), IpAddress::Ipv6(a6d()));
    b.call("verify_checksum(v4)", || p.verify_checksum(&s4, &d4));
    b.call("verify_checksum(v6)", || p.verify_checksum(&s6, &d6));
    b.call("verify_partial_checksum(v4)", || p.verify_partial_checksum(&s4, &d4));
    b.call("verify_partial_checksum(v6)", || p.verify_partial_checksum(&s6, &d6));
    b.call("Display", || format!("{}", p));
    let mut rs = vec![];
    for c in caps2() {
        rs.push(b.call("Repr::parse(v4)", || UdpRepr::parse(&p, &s4, &d4, &c).map(|r| format!("{}", r))));
        rs.push(b.call("Repr::parse(v6)", || UdpRepr::parse(&p, &s6, &d6, &c).map(|r| format!("{}", r))));
    }
    b.call("PrettyPrinter", || format!("{}", PrettyPrinter::<UdpPacket<&[u8]>>::new("", &d)));
    Out::accepted(any_ok(&rs))
}

fn run_tcp(b: &mut Bat, d: &[u8]) -> Out {
    let Some(Ok(p)) = b.call("new_checked", || TcpPacket::new_checked(d)) else {
        return Out::rejected();
    };
    acc!(b, p; src_port, dst_port, seq_number, ack_number, fin, syn, rst, psh, ack, urg, ece, cwr, ns,
        header_len, window_len, checksum, urgent_at, segment_len, selective_ack_permitted,
        selective_ack_ranges, options_summary, options, payload);
    let (s4, d4) = (IpAddress::Ipv4(a4s()), IpAddress::Ipv4(a4d()));
    let (s6, d6) = (IpAddress::Ipv6(a6s()), IpAddress::Ipv6(a6d()));
    b.call("verify_checksum(v4)", || p.verify_checksum(&s4, &d4));
    b.call("verify_checksum(v6)", || p.verify_checksum(&s6, &d6));
    b.call("verify_partial_checksum(v4)", || p.verify_partial_checksum(&s4, &d4));
    b.call("verify_partial_checksum(v6)", || p.verify_partial_checksum(&s6, &d6));
    let cap = d.len() + 1;
    let looped = b.call("TcpOption::parse walk", || {
        let mut o = p.options();
        let mut n = 0usize;
        while !o.is_empty() {
            match TcpOption::parse(o) {
                Ok((rest, opt)) => {
                    black_box(opt.buffer_len());
                    if opt == TcpOption::EndOfList {
                        break;
                    }
                    o = rest;
                }
                Err(_) => break,
            }
            n += 1;
            if n > cap {
                return true;
            }
        }
        false
    });
    if looped == Some(true) {
        b.looped("tcp:options:loop", "TcpOption::parse walk");
    }
    b.call("Display", || format!("{}", p));
    let mut rs = vec![];
    for c in caps2() {
        rs.push(b.call("Repr::parse(v4)", || TcpRepr::parse(&p, &s4, &d4, &c).map(|r| (format!("{}", r), r.buffer_len(), r.segment_len(), r.is_empty()))));
        rs.push(b.call("Repr::parse(v6)", || TcpRepr::parse(&p, &s6, &d6, &c).map(|r| (format!("{}", r), r.buffer_len(), r.segment_len(), r.is_empty()))));
    }
    b.call("PrettyPrinter", || format!("{}", PrettyPrinter::<TcpPacket<&[u8]>>::new("", &d)));
    Out::accepted(any_ok(&rs))
}

/// `TcpOption::parse` directly on a raw option area (no packet view in between).
fn run_tcpopt(b: &mut Bat, d: &[u8]) -> Out {
    let cap = d.len() + 1;
    let first = b.call("TcpOption::parse", || TcpOption::parse(d).map(|(rest, o)| (rest.len(), o.buffer_len())));
    let looped = b.call("TcpOption::parse walk", || {
        let mut o = d;
        let mut n = 0usize;
        while !o.is_empty() {
            match TcpOption::parse(o) {
                Ok((rest, opt)) => {
                    black_box(opt);
                    o = rest;
                }
                Err(_) => break,
            }
            n += 1;
            if n > cap {
                return true;
            }
        }
        false
    });
    if looped == Some(true) {
        b.looped("tcp:options:loop", "TcpOption::parse walk");
    }
    match first {
        Some(Ok(_)) => Out::accepted(Some(true)),
        Some(Err(_)) => Out { ok: false, parse: Some(false) },
        None => Out::rejected(),
    }
}

//@@BATTERIES3@@

//@@SEEDS@@

//@@TABLE@@
