//! C01 - TCP delivers the peer's byte stream intact, in order, exactly once.
//!
//! Two real endpoints, a link that drops / duplicates / delays / reorders /
//! flips bits for the whole run, application scripts on both sides. Oracle: at
//! every successful recv the bytes received so far are a prefix of what the
//! peer application has written so far; Finished only after everything the
//! peer wrote before closing (checked inside the world's app step).

use vkit::runner::{Fail, Part, Prop};
use vkit::sim::tcpworld::{gen_world, label_stats, End, World};
use vkit::{Ctx, Src};

fn case(src: &mut Src, ctx: &mut Ctx) -> Result<(), Fail> {
    let cfg = gen_world(src, true);
    ctx.note(|| format!("{:?}", cfg));
    let mut w = World::new(cfg);
    // 1 in 4: the sockets first carry another connection for a few hundred events under the same
    // faults, then both applications abort it and start over on the same socket objects
    // (decided from bits of a drawn seed so that saved tapes keep their draws)
    let s0 = w.cfg.sides[0].stream_seed;
    if (s0 >> 7) & 3 == 0 {
        let first = 100 + ((s0 >> 9) % 400);
        let _ = w.run(src, ctx, first, 2 * 3600 * 1_000_000)?;
        let parked = w.sock(0).recv_queue() + w.sock(1).recv_queue();
        w.restart();
        w.events = 0;
        ctx.label("socket-objects-reused-after-abort");
        let _ = parked;
    }
    let end = w.run(src, ctx, 20_000, 2 * 3600 * 1_000_000)?;
    label_stats(&w, ctx);
    ctx.label(match end {
        End::Done => "end:done",
        End::Quiescent => "end:quiescent",
        End::EventCap => "end:event-cap",
        End::TimeCap => "end:time-cap",
    });
    let delivered = w.apps[0].received + w.apps[1].received;
    if w.apps[0].finished_seen || w.apps[1].finished_seen {
        ctx.label("fin-delivered");
    }
    if delivered > 0 && w.stats.faults_on_seq_space > 0 {
        ctx.nontrivial = true;
    }
    ctx.count("bytes_delivered", delivered as u64);
    ctx.digest.u64(delivered as u64);
    ctx.digest.u64(w.stats.frames[0]);
    ctx.digest.u64(w.stats.frames[1]);
    ctx.digest.u64(w.stats.dropped);
    ctx.digest.u64(w.stats.corrupted);
    ctx.digest.u64(w.cfg.sides[0].isn as u64);
    ctx.digest.u64(w.cfg.sides[1].rx_buf as u64);
    Ok(())
}

pub fn prop() -> Prop {
    Prop {
        id: "C01",
        parts: vec![Part { name: "stream", case, quick: 6_000, thorough: 300_000 }],
        phases: vec![],
        smoltcp_panic_is_violation: true,
        rule: "two smoltcp endpoints (active opener and listener; IPv4/IPv6; raw-IP or Ethernet medium; rx/tx buffers 1..262144 so window scaling is on/off/asymmetric; MTU from the protocol minimum; congestion control none/Reno/CUBIC; delayed ACK, Nagle, timestamps drawn; both ISNs steered through the interface PRNG seed to values near 2^31/2^32/0/random) exchange pseudo-random streams of 0..256 KiB in both directions with generated write/read/pause/close schedules over a link whose per-frame fate (deliver after delay d, drop, duplicate, single bit flip in a checksummed region, outages) is drawn for the whole run; non-trivial = at least one payload byte delivered and at least one fault applied to a segment occupying sequence space; distinct by digest of (config, traffic and fault totals)",
        assumptions: vec![
            "bit flips are confined to regions where the Internet checksum guarantees detection (TCP segment, IPv4 header, IPv6 addresses); the IPv6 payload-length field is never flipped",
            "stream byte i is a PRF of (seed, i) so any misplaced byte differs with overwhelming probability",
            "runs are capped at 20000 events / 2 h virtual time; C01 is pure safety (progress is C02)",
        ],
    }
}
