//! C04 - a TCP receiver accepts exactly the in-window, in-sequence bytes of any peer.
//!
//! One socket behind an interface on Medium::Ip; a scripted peer that owns a
//! consistent byte stream S sends arbitrary segments relative to the window the
//! socket currently advertises. Oracle: reference receiver (see DESIGN.md C04).

use smoltcp::socket::tcp;
use smoltcp::time::Duration;
use vkit::indep::*;
use vkit::runner::{Fail, Part, Prop};
use vkit::sim::tcpbed::{prf_bytes, tsgen, TcpBed};
use vkit::{vensure, Ctx, Src};

struct Peer {
    irs: u32,
    iss: u32,
    /// negotiated shift applied to the socket's non-SYN window fields
    shift: u8,
    s: Vec<u8>,
    fin_decided: bool,
    fin_arrived: bool,
    /// arrived[i]: byte i arrived in some segment while i < max_edge
    arrived: Vec<bool>,
    /// length of the contiguous prefix of `arrived`
    prefix: usize,
    /// highest right edge advertised so far, relative to IRS+1 (sequence space)
    max_edge: i64,
    /// latest advertised (ack_rel, edge_rel)
    last_ack: i64,
    last_edge: i64,
    delivered: usize,
    finished_seen: bool,
    rx_cap: usize,
    established: bool,
}

impl Peer {
    fn observe(&mut self, seg: &Tcp) -> Result<(), Fail> {
        if seg.has(RST) {
            return Ok(());
        }
        if !seg.has(ACK) {
            return Ok(());
        }
        let ack_rel = seq_diff(seg.ack, self.irs.wrapping_add(1));
        let win = if seg.has(SYN) { seg.win as i64 } else { (seg.win as i64) << self.shift };
        let slen = self.s.len() as i64;
        // oracle 3: the ACK number never covers a byte (or FIN) that has not arrived in-window
        let fin_ok = self.fin_arrived && self.prefix == self.s.len();
        let allowed = self.prefix as i64 + fin_ok as i64;
        vensure!(
            ack_rel <= allowed,
            "ack-covers-unreceived",
            "socket sent ACK covering {} bytes after the SYN but only {} contiguous bytes{} have arrived inside the advertised window (stream {} bytes, highest edge {})",
            ack_rel,
            self.prefix,
            if fin_ok { " + FIN" } else { "" },
            slen,
            self.max_edge
        );
        let covers_fin = ack_rel == slen + 1;
        let data_ack = if covers_fin { ack_rel - 1 } else { ack_rel };
        let edge = data_ack + win;
        // oracle 5: advertised edge never exceeds read position + buffer capacity
        vensure!(
            edge <= self.delivered as i64 + self.rx_cap as i64,
            "window-exceeds-buffer",
            "advertised right edge {} (ack {} + window {}) exceeds bytes read by the app {} + receive buffer {}",
            edge,
            data_ack,
            win,
            self.delivered,
            self.rx_cap
        );
        self.last_ack = data_ack;
        self.last_edge = edge;
        if edge > self.max_edge {
            self.max_edge = edge;
        }
        Ok(())
    }

    /// account for a segment about to be delivered
    fn arriving(&mut self, off: usize, len: usize, fin: bool) {
        for i in off..off + len {
            if (i as i64) < self.max_edge {
                self.arrived[i] = true;
            }
        }
        while self.prefix < self.arrived.len() && self.arrived[self.prefix] {
            self.prefix += 1;
        }
        if fin {
            self.fin_arrived = true;
        }
    }
}

fn read_app(bed: &mut TcpBed, p: &mut Peer, n: usize, ctx: &mut Ctx) -> Result<(), Fail> {
    let mut buf = vec![0u8; n];
    match bed.sock().recv_slice(&mut buf) {
        Ok(k) => {
            ctx.note(|| format!("app: recv_slice({}) -> {} bytes", n, k));
            vensure!(
                p.delivered + k <= p.s.len(),
                "delivered-beyond-stream",
                "app received {} bytes at offset {} but the peer's stream has only {}",
                k,
                p.delivered,
                p.s.len()
            );
            for i in 0..k {
                let pos = p.delivered + i;
                vensure!(
                    buf[i] == p.s[pos],
                    "delivered-wrong-byte",
                    "byte at stream offset {} is {:#04x}, peer wrote {:#04x}",
                    pos,
                    buf[i],
                    p.s[pos]
                );
                vensure!(
                    p.arrived[pos],
                    "delivered-byte-never-in-window",
                    "byte at stream offset {} was delivered although no segment carried it while it was below the advertised right edge (highest edge so far {})",
                    pos,
                    p.max_edge
                );
            }
            p.delivered += k;
            if k > 0 {
                ctx.count("bytes_delivered", k as u64);
            }
        }
        Err(tcp::RecvError::Finished) => {
            ctx.note(|| format!("app: recv_slice({}) -> Finished", n));
            vensure!(
                p.fin_arrived,
                "finished-without-fin",
                "recv reported Finished but the peer never sent FIN"
            );
            vensure!(
                p.delivered == p.s.len(),
                "finished-before-all-data",
                "recv reported Finished after {} of {} bytes",
                p.delivered,
                p.s.len()
            );
            p.finished_seen = true;
        }
        Err(tcp::RecvError::InvalidState) => {
            ctx.note(|| format!("app: recv_slice({}) -> InvalidState", n));
        }
    }
    Ok(())
}

fn case(src: &mut Src, ctx: &mut Ctx) -> Result<(), Fail> {
    let v6 = src.chance(1, 4);
    let rx_cap = match src.weighted(&[3, 3, 2]) {
        0 => *src.pick(&[4096usize, 1, 2, 64, 536, 1460, 65535, 65536, 65537, 100_000, 131_072, 200_000]),
        1 => src.usize(1, 5000),
        _ => src.biased(1, 200_000) as usize,
    };
    let mtu = if v6 { *src.pick(&[1500usize, 1280]) } else { *src.pick(&[1500usize, 576, 120]) };
    let listen = src.chance(2, 3);
    let irs = match src.weighted(&[2, 1, 1, 1]) {
        0 => src.u32(),
        1 => 0u32.wrapping_sub(src.range(0, 3000) as u32),
        2 => 0x8000_0000u32.wrapping_sub(src.range(0, 3000) as u32),
        _ => src.range(0, 2) as u32,
    };
    let peer_ws: Option<u8> = if src.chance(2, 3) { Some(src.range(0, 14) as u8) } else { None };
    let peer_mss: Option<u16> = if src.chance(3, 4) { Some(*src.pick(&[1460u16, 536, 100, 48, 1, 0, 65535])) } else { None };
    let peer_sack = src.bool();
    let peer_ts = src.chance(1, 3);
    let seed = src.u64();
    let stream_seed = src.u64();
    let slen = match src.weighted(&[3, 3, 2, 1]) {
        0 => src.usize(0, 3000),
        1 => rx_cap.saturating_add(src.usize(0, 3000)).min(210_000),
        2 => src.usize(0, rx_cap.min(210_000)),
        _ => 0,
    };
    let mut bed = TcpBed::new(v6, rx_cap, 4096, mtu, seed);
    if src.chance(1, 2) {
        bed.sock().set_ack_delay(None);
    }
    if src.chance(1, 3) {
        bed.sock().set_tsval_generator(Some(tsgen));
    }
    ctx.note(|| {
        format!(
            "{} rx_buffer={} mtu={} {} irs={} peer_ws={:?} peer_mss={:?} sack={} ts={} stream={} bytes",
            if v6 { "ipv6" } else { "ipv4" },
            rx_cap,
            mtu,
            if listen { "listen" } else { "connect" },
            irs,
            peer_ws,
            peer_mss,
            peer_sack,
            peer_ts,
            slen
        )
    });
    ctx.digest.u64(rx_cap as u64);
    ctx.digest.u64(irs as u64);
    ctx.digest.u64(slen as u64);

    let mut p = Peer {
        irs,
        iss: 0,
        shift: 0,
        s: prf_bytes(stream_seed, 0, slen),
        fin_decided: false,
        fin_arrived: false,
        arrived: vec![false; slen],
        prefix: 0,
        max_edge: 0,
        last_ack: 0,
        last_edge: 0,
        delivered: 0,
        finished_seen: false,
        rx_cap,
        established: false,
    };

    let mut syn_opts = vec![];
    if let Some(m) = peer_mss {
        syn_opts.push(TcpOpt::Mss(m));
    }
    if let Some(w) = peer_ws {
        syn_opts.push(TcpOpt::Ws(w));
    }
    if peer_sack {
        syn_opts.push(TcpOpt::SackPerm);
    }
    if peer_ts {
        syn_opts.push(TcpOpt::Ts(1000, 0));
    }
    let (lport, rport) = (bed.lport, bed.rport);
    let mk = |seq: u32, ack: Option<u32>, flags: u8, win: u16| Tcp::new(rport, lport, seq, ack, flags, win);
    let max_payload_early = mtu - (if v6 { 40 } else { 20 }) - 20 - 12;

    // ---- (1 in 4) an earlier connection on the SAME socket object, torn down by the peer while an
    // out-of-order island was parked in the receive buffer: nothing of it - reassembly state,
    // buffered octets, negotiated options - may survive into the connection under test
    // (decided from bits of the payload seed so that saved tapes keep their draws)
    if (stream_seed >> 11) & 3 == 0 && rx_cap >= 4 {
        let b = (stream_seed >> 16) as usize;
        let irs0 = irs.wrapping_add(0x0300_0000);
        let iss0 = if listen {
            bed.listen();
            let mut syn = mk(irs0, None, SYN, 4096);
            syn.opts = syn_opts.clone();
            let out = bed.deliver(&syn)?;
            match out.iter().find(|s| s.has(SYN) && s.has(ACK)) {
                Some(sa) => {
                    let iss0 = sa.seq;
                    let _ = bed.deliver(&mk(irs0.wrapping_add(1), Some(iss0.wrapping_add(1)), 0, 4096))?;
                    Some(iss0)
                }
                None => None,
            }
        } else {
            bed.connect();
            let out = bed.poll()?;
            match out.iter().find(|s| s.has(SYN)) {
                Some(sy) => {
                    let iss0 = sy.seq;
                    let mut sa = mk(irs0, Some(iss0.wrapping_add(1)), SYN, 4096);
                    sa.opts = syn_opts.clone();
                    let _ = bed.deliver(&sa)?;
                    Some(iss0)
                }
                None => None,
            }
        };
        if let Some(iss0) = iss0 {
            if bed.sock().state() == tcp::State::Established {
                let gap = 1 + b % (rx_cap / 2).max(1);
                let len = 1 + (b >> 8) % (rx_cap - gap).min(64).max(1);
                let mut island = mk(irs0.wrapping_add(1).wrapping_add(gap as u32), Some(iss0.wrapping_add(1)), 0, 4096);
                island.payload = vec![0x5A; len.min(max_payload_early)];
                let _ = bed.deliver(&island)?;
                let _ = bed.deliver(&mk(irs0.wrapping_add(1), None, RST, 0))?;
                if bed.sock().state() == tcp::State::Closed {
                    ctx.label("earlier-connection-reset-with-island-parked");
                } else {
                    ctx.label("earlier-connection-not-closed");
                    return Ok(());
                }
            } else {
                bed.sock().abort();
                let _ = bed.poll()?;
            }
        }
    }

    // ---- handshake
    if listen {
        bed.listen();
        let mut syn = mk(irs, None, SYN, src.u16());
        syn.opts = syn_opts.clone();
        let out = bed.deliver(&syn)?;
        let Some(sa) = out.iter().find(|s| s.has(SYN) && s.has(ACK)) else {
            // no SYN-ACK: nothing more to check in this case
            ctx.label("no-synack");
            return Ok(());
        };
        p.iss = sa.seq;
        vensure!(sa.ack == irs.wrapping_add(1), "synack-wrong-ack", "SYN-ACK acks {} expected {}", sa.ack, irs.wrapping_add(1));
        p.shift = match (peer_ws, sa.ws()) {
            (Some(_), Some(s)) => s,
            _ => 0,
        };
        let sa = sa.clone();
        p.observe(&sa)?;
        for s in out.iter().filter(|s| !(s.has(SYN) && s.has(ACK))) {
            p.observe(s)?;
        }
    } else {
        bed.connect();
        let out = bed.poll()?;
        let Some(sy) = out.iter().find(|s| s.has(SYN)) else {
            ctx.label("no-syn");
            return Ok(());
        };
        p.iss = sy.seq;
        // the SYN's (unscaled) window becomes the edge once the peer's ISN is known
        p.max_edge = sy.win as i64;
        p.last_edge = sy.win as i64;
        p.shift = match (peer_ws, sy.ws()) {
            (Some(_), Some(s)) => s,
            _ => 0,
        };
        let w0 = src.u16();
        if (stream_seed >> 21) & 3 == 0 {
            // simultaneous open (one active open in four; decided from bits of the payload seed, no
            // further draw): the peer's SYN crosses the socket's and carries no ACK; the socket
            // answers SYN|ACK, the peer acknowledges that. What was negotiated must be the same as
            // in an ordinary open.
            let mut s1 = mk(irs, None, SYN, w0);
            s1.opts = syn_opts.clone();
            let out = bed.deliver(&s1)?;
            for s in &out {
                p.observe(s)?;
            }
            let a = mk(irs.wrapping_add(1), Some(p.iss.wrapping_add(1)), 0, w0);
            let out = bed.deliver(&a)?;
            for s in &out {
                p.observe(s)?;
            }
            ctx.label("simultaneous-open");
        } else {
            let mut sa = mk(irs, Some(p.iss.wrapping_add(1)), SYN, w0);
            sa.opts = syn_opts.clone();
            let out = bed.deliver(&sa)?;
            for s in &out {
                p.observe(s)?;
            }
        }
    }
    p.established = true;
    if p.shift > 0 {
        ctx.label("window-scaling");
    }

    // ---- scripted segments
    let ip_hdr = if v6 { 40 } else { 20 };
    let max_payload = mtu - ip_hdr - 20 - 12; // room for a timestamp option
    let mut history: Vec<(usize, usize, bool, u32, u16)> = vec![];
    let mut outside = false;
    let mut overlap = false;
    let mut reads = 0;
    let mut steps = 0;
    while steps < 200 && src.more(39, 40) {
        steps += 1;
        // (new kinds are appended so that the draws of saved tapes keep their meaning)
        match src.weighted(&[12, 4, 2, 2, 1, 2]) {
            5 if p.fin_arrived => {
                // text beyond the FIN: not part of the peer's stream, must never be delivered
                // or acknowledged (RFC 9293 3.10.7.4, "ignore the segment text")
                let k = src.usize(0, 3);
                let len = src.usize(1, max_payload.min(64));
                let seqn = irs.wrapping_add(2).wrapping_add(p.s.len() as u32).wrapping_add(k as u32);
                let mut seg = mk(seqn, Some(p.iss.wrapping_add(1)), if src.chance(1, 4) { PSH } else { 0 }, src.u16());
                seg.payload = (0..len).map(|i| 0xF0u8 ^ (i as u8) ^ (k as u8)).collect();
                ctx.label("seg:text-after-fin");
                ctx.note(|| format!("peer: {} octets of text {} past the FIN (rcv_nxt={} edge={})", len, k, p.last_ack, p.last_edge));
                let out = bed.deliver(&seg)?;
                for s in &out {
                    ctx.note(|| format!("sock: {}", s));
                    p.observe(s)?;
                }
            }
            0 | 3 => {
                // a segment
                let dup = !history.is_empty() && src.chance(1, 8);
                let (off, len, fin, ack, win) = if dup {
                    *src.pick(&history)
                } else {
                    let nxt = p.last_ack.max(0) as usize;
                    let edge = p.last_edge.max(nxt as i64) as usize;
                    let slen = p.s.len();
                    let start: usize = match src.weighted(&[6, 2, 1, 3, 3, 2, 1]) {
                        0 => nxt,
                        1 => nxt.saturating_sub(src.usize(1, 1 + nxt.min(2 * max_payload))),
                        2 => src.usize(0, nxt),
                        3 => nxt + src.usize(0, edge - nxt),
                        4 => edge.saturating_sub(src.usize(0, max_payload.min(edge - nxt))),
                        5 => edge + src.usize(0, 2),
                        _ => edge + src.usize(0, 200_000),
                    }
                    .min(slen);
                    let want = match src.weighted(&[4, 2, 1, 1]) {
                        0 => src.usize(1, max_payload),
                        1 => src.usize(0, 8),
                        2 => max_payload,
                        _ => 0,
                    };
                    let len = want.min(slen - start);
                    if !p.fin_decided && (start + len == slen) && src.chance(1, 2) {
                        p.fin_decided = true;
                    }
                    let fin = p.fin_decided && start + len == slen && src.chance(3, 4);
                    let ack = match src.weighted(&[10, 1, 1]) {
                        0 => p.iss.wrapping_add(1),
                        1 => p.iss,
                        _ => p.iss.wrapping_add(1 + src.range(1, 3) as u32),
                    };
                    (start, len, fin, ack, src.u16())
                };
                if !dup {
                    history.push((off, len, fin, ack, win));
                }
                let nxt = p.last_ack.max(0) as usize;
                if off < nxt && len > 0 {
                    overlap = true;
                    ctx.label("seg:left-overlap");
                }
                if (off + len) as i64 > p.last_edge && len > 0 {
                    outside = true;
                    ctx.label(if fin { "seg:right-overrun-with-fin" } else { "seg:right-overrun" });
                }
                if off > nxt {
                    ctx.label("seg:hole");
                }
                let mut seg = mk(irs.wrapping_add(1).wrapping_add(off as u32), Some(ack), if fin { FIN } else { 0 } | if len > 0 && src.bool() { PSH } else { 0 }, win);
                seg.payload = p.s[off..off + len].to_vec();
                if peer_ts && src.chance(3, 4) {
                    seg.opts.push(TcpOpt::Ts(1000 + steps as u32, 0x12345678));
                }
                ctx.note(|| format!("peer: seg off={} len={} fin={} ack={} win={} (rcv_nxt={} edge={})", off, len, fin, seq_diff(ack, p.iss), win, p.last_ack, p.last_edge));
                if irs.wrapping_add(1).wrapping_add(off as u32) < irs {
                    ctx.label("seq-wraps");
                }
                p.arriving(off, len, fin);
                let out = bed.deliver(&seg)?;
                for s in &out {
                    ctx.note(|| format!("sock: {}", s));
                    p.observe(s)?;
                }
            }
            1 => {
                let n = match src.weighted(&[3, 2, 1]) {
                    0 => src.usize(1, 64),
                    1 => src.usize(1, rx_cap.min(65536)),
                    _ => 65536,
                };
                reads += 1;
                read_app(&mut bed, &mut p, n, ctx)?;
                let out = bed.poll()?;
                for s in &out {
                    ctx.note(|| format!("sock: {}", s));
                    p.observe(s)?;
                }
            }
            2 => {
                let d = *src.pick(&[0i64, 1_000, 10_000, 100_000, 1_000_000]);
                bed.advance(d);
                ctx.note(|| format!("time +{} us", d));
                let out = bed.poll()?;
                for s in &out {
                    ctx.note(|| format!("sock: {}", s));
                    p.observe(s)?;
                }
            }
            _ => {
                // poll at the deadline the interface asked for
                if let Some(t) = bed.poll_at_us() {
                    if t > bed.now_us {
                        bed.now_us = t.min(bed.now_us + 5_000_000);
                    }
                }
                let out = bed.poll()?;
                for s in &out {
                    p.observe(s)?;
                }
            }
        }
    }

    // ---- tail: a well-behaved peer now (re)sends everything in order inside the window
    let mut guard = 0;
    let mut stalled = 0;
    while !p.finished_seen && guard < 2000 {
        guard += 1;
        read_app(&mut bed, &mut p, 65536, ctx)?;
        if p.finished_seen {
            break;
        }
        let out = bed.poll()?;
        for s in &out {
            p.observe(s)?;
        }
        let nxt = p.last_ack.max(0) as usize;
        let room = (p.last_edge - p.last_ack).max(0) as usize;
        let len = max_payload.min(p.s.len().saturating_sub(nxt)).min(room);
        let fin = nxt + len == p.s.len();
        if len == 0 && !fin {
            stalled += 1;
            bed.advance(200_000);
            if stalled > 50 {
                break;
            }
            continue;
        }
        let mut seg = mk(irs.wrapping_add(1).wrapping_add(nxt as u32), Some(p.iss.wrapping_add(1)), if fin { FIN } else { 0 }, 1000);
        seg.payload = p.s[nxt..nxt + len].to_vec();
        p.arriving(nxt, len, fin);
        let before = p.last_ack;
        let out = bed.deliver(&seg)?;
        for s in &out {
            p.observe(s)?;
        }
        if p.last_ack == before {
            // delayed ACK: let time pass
            bed.advance(20_000);
            let out = bed.poll()?;
            for s in &out {
                p.observe(s)?;
            }
            if p.last_ack == before {
                stalled += 1;
                if stalled > 50 {
                    break;
                }
            }
        }
    }
    if p.finished_seen && src.weighted(&[1, 2]) == 1 {
        // end-of-stream was reported: whatever the peer sends now, nothing more is delivered
        ctx.label("tail:text-after-finished");
        for k in 0..src.usize(1, 3) {
            let len = src.usize(1, max_payload.min(64));
            let seqn = irs.wrapping_add(2).wrapping_add(p.s.len() as u32).wrapping_add(k as u32 * src.usize(0, 2) as u32);
            let mut seg = mk(seqn, Some(p.iss.wrapping_add(1)), 0, 1000);
            seg.payload = vec![0xEE; len];
            ctx.note(|| format!("peer: {} octets of text after the FIN was consumed", len));
            let out = bed.deliver(&seg)?;
            for s in &out {
                ctx.note(|| format!("sock: {}", s));
                p.observe(s)?;
            }
            read_app(&mut bed, &mut p, 65536, ctx)?;
            bed.advance(20_000);
            let out = bed.poll()?;
            for s in &out {
                p.observe(s)?;
            }
        }
    }
    if p.finished_seen {
        ctx.label("tail:finished");
    } else {
        ctx.label("tail:not-finished");
    }
    if (outside || overlap) && reads > 0 {
        ctx.nontrivial = true;
    }
    ctx.digest.u64(history.len() as u64);
    for h in &history {
        ctx.digest.u64(h.0 as u64);
        ctx.digest.u64(h.1 as u64);
    }
    let _ = Duration::from_millis(0);
    Ok(())
}

pub fn prop() -> Prop {
    Prop {
        id: "C04",
        parts: vec![Part { name: "receiver", case, quick: 200_000, thorough: 5_000_000 }],
        phases: vec![],
        smoltcp_panic_is_violation: true,
        rule: "one TCP socket (rx buffer 1..=200000, listen, connect or simultaneous open, IPv4/IPv6, peer ISN biased to wrap points, handshake options drawn) fed by a scripted peer that owns a fixed byte stream and sends <=200 segments placed relative to the window the socket currently advertises (old, left-overlapping, in order, hole-creating, straddling/just beyond/far beyond the right edge, with FIN only at the end of the stream, and text placed beyond that FIN once it has been sent - during the run and again after end-of-stream was reported), interleaved with application reads and time advances; oracle = reference receiver built from the segments delivered and the windows read off the socket's own emitted segments by an independent TCP decoder; non-trivial = at least one data segment partly outside the window or overlapping delivered data, and at least one application read; distinct by digest of (config, segment list)",
        assumptions: vec![
            "independent IPv4/IPv6/TCP codec in vkit::indep",
            "a byte counts as 'arrived in window' if any delivered segment carried it while its sequence number was below the highest right edge advertised so far (necessary condition only)",
            "the peer never resets the connection and never contradicts itself about stream contents",
        ],
    }
}
