//! C02 - TCP makes progress when driven only by poll_at and arriving frames.
//!
//! Same world as C01, but the link is faulty only for a finite prefix of frames
//! and both applications close. Nodes are polled only when a frame arrives, at
//! the instant poll_at named, and right after socket API calls.

use vkit::runner::{Fail, Part, Prop};
use vkit::sim::tcpworld::{gen_world, label_stats, End, World};
use vkit::{Ctx, Src};

fn case(src: &mut Src, ctx: &mut Ctx) -> Result<(), Fail> {
    run_case(src, ctx, false)
}

/// Part `reuse`: the same worlds, but the connection that is judged runs on socket objects that
/// have already carried (and aborted) another one. A part of its own so that tapes saved for
/// part `progress` keep their meaning.
fn case_reuse(src: &mut Src, ctx: &mut Ctx) -> Result<(), Fail> {
    run_case(src, ctx, true)
}

fn run_case(src: &mut Src, ctx: &mut Ctx, reuse: bool) -> Result<(), Fail> {
    let cfg = gen_world(src, false);
    ctx.note(|| format!("{:?}", cfg));
    let mut w = World::new(cfg);
    w.check_deadline_invariant = true;
    // the contract: polled "no later than the instant it last returned from poll_at" - this
    // driver polls at exactly that instant, also when it is the present one
    w.strict_schedule = true;
    // generous horizon: faults end after a bounded number of frames; allow 3 h of virtual time
    let horizon: i64 = 3 * 3600 * 1_000_000;
    // reuse: the socket objects first carry another connection for a few hundred events, which both
    // applications then abort; the connection that is judged runs on the same (reused) sockets and
    // gets its own fault phase. Whatever the first connection left behind in a socket must not keep
    // the second from making progress. (Its length comes from bits of a drawn seed.)
    let s0 = w.cfg.sides[0].stream_seed;
    if reuse {
        let first = 100 + ((s0 >> 9) % 400);
        let _ = w.run(src, ctx, first, horizon)?;
        w.restart();
        w.events = 0;
        w.stats.frames = [0, 0];
        w.stats.fault_end_us = 0;
        ctx.label("socket-objects-reused-after-abort");
    }
    let end = w.run(src, ctx, 60_000, horizon)?;
    label_stats(&w, ctx);
    match end {
        End::Done => ctx.label("end:done"),
        End::Quiescent => {
            // no frame in flight, no node deadline, no app wake-up pending, yet not finished
            let st = w.describe_state();
            let key = format!(
                "stall:{}/{}",
                w.sock(0).state(),
                w.sock(1).state()
            );
            return Err(Fail::new(key, format!("the world is quiescent at t={}us but the transfer/shutdown is incomplete: {}", w.now_us, st)));
        }
        End::EventCap | End::TimeCap => {
            // "If the network eventually stops losing packets ...": the clock of the no-progress
            // rule starts when BOTH directions have left their fault phase (fault_end_us = instant
            // of the first frame carried reliably after the last faulty one), not at the last
            // progress made while the link was still dropping frames
            let faults_over = w.stats.frames[0] >= w.cfg.link.fault_frames && w.stats.frames[1] >= w.cfg.link.fault_frames && w.stats.fault_end_us > 0;
            let since = w.stats.last_progress_us.max(w.stats.fault_end_us);
            let idle = w.now_us - since;
            if faults_over && idle > 1800 * 1_000_000 && end == End::TimeCap {
                let st = w.describe_state();
                let ign = w.acks_ignored();
                let key = match ign {
                    [true, true] => "livelock:acks-ignored:both-directions".to_string(),
                    [true, false] => format!("livelock:acks-ignored:by-{}", w.sock(0).state()),
                    [false, true] => format!("livelock:acks-ignored:by-{}", w.sock(1).state()),
                    _ => format!("livelock:other:{}/{}", w.sock(0).state(), w.sock(1).state()),
                };
                return Err(Fail::new(
                    key,
                    format!("events keep firing but no application-level progress for {} s after the link became reliable: {}", idle / 1_000_000, st),
                ));
            }
            ctx.inconclusive = true;
            ctx.label("end:cap-inconclusive");
        }
    }
    if w.stats.faults_on_seq_space > 0 && w.stats.retransmissions > 0 {
        ctx.nontrivial = true;
    }
    let delivered = w.apps[0].received + w.apps[1].received;
    ctx.count("bytes_delivered", delivered as u64);
    ctx.digest.u64(delivered as u64);
    ctx.digest.u64(w.stats.frames[0]);
    ctx.digest.u64(w.stats.frames[1]);
    ctx.digest.u64(w.stats.dropped);
    ctx.digest.u64(w.stats.retransmissions);
    ctx.digest.u64(w.cfg.sides[0].isn as u64);
    Ok(())
}

pub fn prop() -> Prop {
    Prop {
        id: "C02",
        parts: vec![Part { name: "progress", case, quick: 4_500, thorough: 225_000 }, Part { name: "reuse", case: case_reuse, quick: 1_500, thorough: 75_000 }],
        phases: vec![],
        smoltcp_panic_is_violation: true,
        rule: "(driver: each node is polled when a frame arrives and at exactly the instant poll_at last returned - also when that is the present instant; three such polls in a row that neither send, receive nor involve the application while poll_at does not advance are a stuck connection) the C01 two-endpoint world, but link faults (drop/duplicate/delay/reorder/bit flip/outage) apply only to the first 0..400 frames of each direction, after which delivery is reliable and in order; both applications write their stream, read with pauses (zero windows) and close; each node is polled only when a frame arrives, at the instant its last poll_at named, and right after socket API calls; checked: (a) after every poll, unacknowledged data/SYN/FIN implies a finite Interface::poll_at; (b) the closed world never becomes quiescent (no frame in flight, no deadline, no app wake-up) before both transfers and the shutdown handshake completed; (c) no 30 virtual minutes without application progress once the link is reliable; non-trivial = a fault hit a segment occupying sequence space and at least one retransmission was observed; distinct by digest",
        assumptions: vec![
            "liveness is decided exactly as deadlock of the closed simulated world (the harness owns the clock); hitting the 60000-event / 3 h cap with recent progress is counted inconclusive, never a violation",
            "both applications always close, so completion means both sockets reach CLOSED or TIME-WAIT and both readers saw Finished",
        ],
    }
}
