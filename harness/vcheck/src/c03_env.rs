//! C03 helper: shared types - the interface's addressing, the scripted peers, what
//! has been observed in the stack's own output, and the packet description the
//! grammar produces.

use super::lowpan::{Ctxs, Ll};
use vkit::indep::*;

#[derive(Clone, Copy, PartialEq, Eq, Debug)]
pub enum Med {
    Eth,
    Ip,
    Lowpan,
}

impl Med {
    pub fn name(&self) -> &'static str {
        match self {
            Med::Eth => "ethernet",
            Med::Ip => "ip",
            Med::Lowpan => "ieee802154",
        }
    }
}

pub struct Own {
    pub med: Med,
    pub mac: [u8; 6],
    pub ll: Ll,
    pub pan: Option<u16>,
    /// own IPv4 address (/24); None on 802.15.4
    pub v4: Option<[u8; 4]>,
    pub ll6: [u8; 16],
    pub g6: [u8; 16],
    pub group4: Option<[u8; 4]>,
    pub group6: Option<[u8; 16]>,
    pub mtu: usize,
    pub slaac: bool,
}

impl Own {
    pub fn v4_bcast(&self) -> Option<[u8; 4]> {
        self.v4.map(|a| [a[0], a[1], a[2], 255])
    }
}

#[derive(Clone, Debug)]
pub struct Peer {
    pub mac: [u8; 6],
    pub ll: Ll,
    pub v4: [u8; 4],
    pub ll6: [u8; 16],
    pub g6: [u8; 16],
    pub onlink: bool,
}

/// One TCP connection as seen from outside (addresses from the stack's point of view).
#[derive(Clone, Debug)]
pub struct Conn {
    pub local: (Ip, u16),
    pub remote: (Ip, u16),
    /// sequence number of the last segment the stack emitted
    pub s_seq: u32,
    /// highest sequence number the stack has sent, + 1
    pub s_nxt: u32,
    pub s_ack: Option<u32>,
    pub s_flags: u8,
    pub s_win: u16,
    /// what the scripted peer would send next
    pub p_nxt: u32,
    pub seen: bool,
}

#[derive(Clone, Debug)]
pub struct DnsObs {
    pub own: Ip,
    pub port: u16,
    pub server: Ip,
    pub sport: u16,
    pub txid: u16,
    /// question section as emitted (name, type, class)
    pub question: Vec<u8>,
}

#[derive(Clone, Debug)]
pub struct DhcpObs {
    pub xid: u32,
    pub msg: u8,
    pub requested: Option<[u8; 4]>,
    pub server: Option<[u8; 4]>,
}

pub struct Env {
    pub own: Own,
    pub peers: Vec<Peer>,
    pub udp_ports: Vec<u16>,
    pub tcp_ports: Vec<u16>,
    pub icmp_ident: u16,
    pub conns: Vec<Conn>,
    pub dns: Option<DnsObs>,
    pub dhcp: Option<DhcpObs>,
    pub ctxs: Ctxs,
    pub seq154: u8,
    pub ipid: u16,
}

pub const UDP_PORT_A: u16 = 7000;
pub const UDP_PORT_B: u16 = 0xf0b3;
pub const TCP_PORT_SMALL: u16 = 80;
pub const TCP_PORT_BIG: u16 = 8080;
pub const ICMP_IDENT: u16 = 0x1234;
pub const PEER_TCP_PORT: u16 = 7;

impl Env {
    pub fn next_id(&mut self) -> u16 {
        self.ipid = self.ipid.wrapping_add(1);
        self.ipid
    }
    pub fn is_own(&self, a: &Ip) -> bool {
        match a {
            Ip::V4(x) => self.own.v4 == Some(*x),
            Ip::V6(x) => *x == self.own.ll6 || *x == self.own.g6,
        }
    }
    /// addressed to the interface in the widest sense (unicast, broadcast, groups it listens to)
    pub fn is_for_us(&self, a: &Ip) -> bool {
        if self.is_own(a) {
            return true;
        }
        match a {
            Ip::V4(x) => *x == [255; 4] || Some(*x) == self.own.v4_bcast() || *x == [224, 0, 0, 1] || Some(*x) == self.own.group4,
            Ip::V6(x) => {
                let mut all = [0u8; 16];
                all[0] = 0xff;
                all[1] = 2;
                all[15] = 1;
                *x == all || *x == solicited_node(&self.own.ll6) || *x == solicited_node(&self.own.g6) || Some(*x) == self.own.group6
            }
        }
    }
    pub fn conn_index(&mut self, local: (Ip, u16), remote: (Ip, u16)) -> usize {
        if let Some(i) = self.conns.iter().position(|c| c.local == local && c.remote == remote) {
            return i;
        }
        if self.conns.len() >= 12 {
            self.conns.remove(0);
        }
        self.conns.push(Conn { local, remote, s_seq: 0, s_nxt: 0, s_ack: None, s_flags: 0, s_win: 0, p_nxt: 0, seen: false });
        self.conns.len() - 1
    }
    /// index of the peer owning this address (off-link addresses map to the far host)
    pub fn peer_of(&self, a: &Ip) -> usize {
        for (i, p) in self.peers.iter().enumerate() {
            let hit = match a {
                Ip::V4(x) => p.v4 == *x,
                Ip::V6(x) => p.ll6 == *x || p.g6 == *x,
            };
            if hit {
                return i;
            }
        }
        // unknown on-link address -> first peer's link address; unknown off-link -> far host
        let onlink = match a {
            Ip::V4(x) => self.own.v4.map(|o| o[..3] == x[..3]).unwrap_or(false),
            Ip::V6(x) => x[..8] == self.own.ll6[..8] || x[..8] == self.own.g6[..8],
        };
        if onlink {
            0
        } else {
            3
        }
    }
}

#[derive(Clone, Debug)]
pub enum Body {
    V4(Vec<u8>),
    V6(Vec<u8>),
    Arp(Vec<u8>),
    Eth(u16, Vec<u8>),
}

#[derive(Clone, Copy, Debug, PartialEq, Eq)]
pub enum L2Dst {
    Own,
    Bcast,
    /// derive from the IP destination (multicast mapping / broadcast), own otherwise
    Auto,
    Other,
}

#[derive(Clone, Debug)]
pub struct Pkt {
    pub body: Body,
    /// index of the peer whose link-layer address the frame comes from
    pub from: usize,
    pub l2dst: L2Dst,
    pub class: &'static str,
}

impl Pkt {
    pub fn v4(ip: Vec<u8>, from: usize, class: &'static str) -> Pkt {
        Pkt { body: Body::V4(ip), from, l2dst: L2Dst::Auto, class }
    }
    pub fn v6(ip: Vec<u8>, from: usize, class: &'static str) -> Pkt {
        Pkt { body: Body::V6(ip), from, l2dst: L2Dst::Auto, class }
    }
    pub fn ip(p: &IpPkt, from: usize, class: &'static str) -> Pkt {
        match p {
            IpPkt::V4(x) => Pkt::v4(x.encode(), from, class),
            IpPkt::V6(x) => Pkt::v6(x.encode(), from, class),
        }
    }
}

pub fn v6addr(prefix: [u8; 8], iid: [u8; 8]) -> [u8; 16] {
    let mut a = [0u8; 16];
    a[..8].copy_from_slice(&prefix);
    a[8..].copy_from_slice(&iid);
    a
}

pub const LL_PREFIX: [u8; 8] = [0xfe, 0x80, 0, 0, 0, 0, 0, 0];
pub const G_PREFIX: [u8; 8] = [0x20, 0x01, 0x0d, 0xb8, 0, 0, 0, 1];
pub const FAR_PREFIX: [u8; 8] = [0x20, 0x01, 0x0d, 0xb8, 0xff, 0xff, 0, 3];

pub fn eui64(mac: &[u8; 6]) -> [u8; 8] {
    [mac[0] ^ 2, mac[1], mac[2], 0xff, 0xfe, mac[3], mac[4], mac[5]]
}

pub const ALL_NODES: [u8; 16] = [0xff, 2, 0, 0, 0, 0, 0, 0, 0, 0, 0, 0, 0, 0, 0, 1];
pub const ALL_ROUTERS: [u8; 16] = [0xff, 2, 0, 0, 0, 0, 0, 0, 0, 0, 0, 0, 0, 0, 0, 2];
