// Part of c18.rs (textually included): scripted server, case driver, Prop.

const DEFECTS: &[&str] = &[
    "xid-previous",
    "xid-random",
    "chaddr-other",
    "server-id-absent",
    "server-id-changed",
    "mask-noncontiguous",
    "mask-absent",
    "yiaddr-broadcast",
    "yiaddr-zero",
    "yiaddr-multicast",
    "bad-cookie",
    "wrong-sport",
    "wrong-dport",
    "eth-dst-other",
    "bad-udp-checksum",
    "options-overrun-early",
    "options-overrun-late",
    "options-no-end",
    "xid-off-by-one",
    "chaddr-last-byte",
];

const TIMES: &[Option<u32>] = &[None, Some(0), Some(1), Some(59), Some(60), Some(61), Some(3600), Some(u32::MAX)];

impl World {
    fn draw_lease(&self, src: &mut Src) -> Option<u32> {
        match src.weighted(&[6, 4, 2]) {
            0 => Some(src.range(1, 8) as u32),
            1 => *src.pick(TIMES),
            _ => Some(src.range(2, 120) as u32),
        }
    }

    fn draw_t(&self, src: &mut Src, lease: Option<u32>, other: Option<u32>) -> Option<u32> {
        let l = lease.unwrap_or(DEFAULT_LEASE_S as u32);
        match src.weighted(&[3, 2, 1, 1, 1]) {
            0 => *src.pick(TIMES),
            1 => Some(l / 2),
            2 => Some(l),                                             // equal to the lease
            3 => Some(other.unwrap_or(l / 2).saturating_add(1)),      // inverted w.r.t. the other timer
            _ => Some(src.range(0, l as u64) as u32),
        }
    }

    /// Build a reply of type `mtype` answering transaction `xid`, with 0..2 drawn defects.
    fn mk_reply(&mut self, mtype: u8, xid: u32, src: &mut Src, ctx: &mut Ctx) -> Reply {
        let p = self.plan.clone();
        let addr_bearing = mtype == OFFER || mtype == ACK || (mtype != NAK && src.bool());
        let lease = if addr_bearing { self.draw_lease(src) } else { None };
        let (t1, t2) = if !addr_bearing {
            (None, None)
        } else {
            match src.weighted(&[6, 2, 3]) {
                0 => (None, None),
                1 => {
                    // ordered T1 < T2 < lease when the lease is long enough
                    let l = lease.unwrap_or(DEFAULT_LEASE_S as u32);
                    (Some(l / 2), Some((l as u64 * 3 / 4) as u32))
                }
                _ => {
                    let a = self.draw_t(src, lease, None);
                    let b = self.draw_t(src, lease, a);
                    (a, b)
                }
            }
        };
        let routers = if !addr_bearing {
            vec![]
        } else {
            match (p.router, src.weighted(&[8, 1, 1])) {
                (None, _) => vec![],
                (Some(r), 0) => vec![r],
                (Some(r), 1) => vec![r, [r[0], r[1], r[2], r[3] ^ 8]],
                (Some(_), _) => vec![],
            }
        };
        let dns = if !addr_bearing {
            None
        } else {
            let n = src.draw(4) as usize;
            if n == 0 {
                if src.chance(1, 6) { Some(vec![]) } else { None }
            } else {
                const POOL: &[[u8; 4]] = &[[8, 8, 8, 8], [1, 1, 1, 1], [9, 9, 9, 9], [0, 0, 0, 0], [10, 0, 0, 53]];
                Some((0..n).map(|_| *src.pick(POOL)).collect())
            }
        };
        let mut yi = if mtype == NAK { [0; 4] } else { p.yi };
        if addr_bearing && src.chance(1, 14) {
            // the server hands out another address / prefix this time
            yi[3] = yi[3].wrapping_add(16) | 1;
            ctx.label("reply:address-changed");
        }
        let mut r = Reply {
            mtype,
            xid,
            chaddr: self.mac,
            client_id: None,
            yiaddr: yi,
            server_id: Some(p.srv_id),
            mask: if addr_bearing { Some(prefix_mask(p.prefix)) } else { None },
            lease,
            t1,
            t2,
            routers,
            dns,
            cookie: COOKIE,
            tail: Tail::End,
            overrun_early: false,
            pads: if src.chance(1, 8) { src.range(1, 40) as u8 } else { 0 },
            sport: self.sport,
            dport: self.cport,
            src_ip: p.srv_ip,
            dst_ip: if src.bool() { yi } else { BCAST },
            eth_dst: if src.bool() { self.mac } else { MAC_BROADCAST },
            eth_src: self.smac,
            bad_csum: false,
            defects: vec![],
        };
        if r.dst_ip == [0; 4] {
            r.dst_ip = BCAST;
        }
        // source address of the datagram: the server's own, except in cases drawn to have a wandering
        // (1 = another unicast address) or an unspecified (2 = 0.0.0.0) source
        if self.weird_src != 0 && src.chance(1, 4) {
            self.src_varied = true;
            if self.weird_src == 1 {
                r.src_ip = [p.srv_ip[0], p.srv_ip[1], p.srv_ip[2], p.srv_ip[3] ^ 0x40];
                ctx.label("reply:src-ip-other");
            } else {
                r.src_ip = [0; 4];
                ctx.label("reply:src-ip-unspecified");
            }
        }
        let ndef = src.weighted(&[14, 5, 1]);
        for _ in 0..ndef {
            let d = *src.pick(DEFECTS);
            if r.defects.contains(&d) {
                continue;
            }
            r.defects.push(d);
            match d {
                "xid-previous" => {
                    // an xid the client used before the current one (falls back to a foreign one)
                    let prev: Vec<u32> = self.xids.iter().copied().filter(|x| *x != xid).collect();
                    r.xid = if prev.is_empty() { xid ^ 0x8000_0000 } else { *src.pick(&prev) };
                }
                "xid-random" => r.xid = *src.pick(&[1u32, 0, 2, 0x1234_5678]) ^ if src.bool() { 0 } else { src.u32() },
                "xid-off-by-one" => r.xid = xid.wrapping_add(1),
                "chaddr-other" => r.chaddr = [0x02, 0, 0, 0, 0, 0x99],
                "chaddr-last-byte" => r.chaddr[5] ^= 1,
                "server-id-absent" => r.server_id = None,
                "server-id-changed" => r.server_id = Some([p.srv_id[0], p.srv_id[1], p.srv_id[2], p.srv_id[3] ^ 0x20]),
                "mask-noncontiguous" => r.mask = Some(*src.pick(&[[255, 0, 255, 0], [255, 255, 255, 1], [0, 255, 255, 255], [255, 255, 254, 255], [127, 255, 255, 255]])),
                "mask-absent" => r.mask = None,
                "yiaddr-broadcast" => r.yiaddr = BCAST,
                "yiaddr-zero" => r.yiaddr = [0; 4],
                "yiaddr-multicast" => r.yiaddr = *src.pick(&[[224, 0, 0, 1], [239, 255, 255, 255], [230, 1, 2, 3]]),
                "bad-cookie" => r.cookie = *src.pick(&[0u32, 0x6382_5364, 0x6353_8263]),
                "wrong-sport" => r.sport = r.sport.wrapping_add(1),
                "wrong-dport" => r.dport = r.dport.wrapping_add(1),
                "eth-dst-other" => r.eth_dst = [0x02, 0, 0, 0, 0, 0x77],
                "bad-udp-checksum" => r.bad_csum = true,
                "options-overrun-early" => r.overrun_early = true,
                "options-overrun-late" => r.tail = Tail::Overrun,
                "options-no-end" => r.tail = Tail::NoEnd,
                _ => unreachable!(),
            }
            // a message for another client may still carry OUR hardware address as client identifier
            // (decided from the transaction id: no further draw, saved tapes keep their meaning)
            if matches!(d, "chaddr-other" | "chaddr-last-byte") && (xid >> 3) & 1 == 1 {
                let mut c = vec![1u8];
                c.extend_from_slice(&self.mac);
                r.client_id = Some(c);
                ctx.label("reply:foreign-chaddr-with-our-client-identifier");
            }
            ctx.label(&format!("defect:{}:{}", type_name(mtype), d));
        }
        if r.dst_ip != BCAST && !v4_unicast(r.dst_ip) {
            r.dst_ip = BCAST;
        }
        r
    }

    fn send_reply(&mut self, r: &Reply, src: &mut Src, ctx: &mut Ctx) {
        self.reply_kinds.push(r.mtype);
        if src.chance(1, 10) {
            ctx.label("loss:server-reply-dropped");
            ctx.note(|| format!("t={} server reply LOST: {}", self.now, r.describe()));
            return;
        }
        let wait = if src.chance(1, 8) { src.range(1, 4) as u32 } else { 0 };
        if wait > 0 {
            ctx.label("reply:delayed");
        }
        let fr = r.encode();
        self.queue.push((wait, fr.clone(), r.describe()));
        if src.chance(1, 12) {
            ctx.label("reply:duplicated");
            let w2 = if src.bool() { wait } else { wait + src.range(1, 3) as u32 };
            self.queue.push((w2, fr, format!("(duplicate) {}", r.describe())));
        }
    }

    /// The scripted server reacts to one client message seen on the wire.
    fn react(&mut self, cm: &ClientMsg, src: &mut Src, ctx: &mut Ctx) {
        if src.chance(1, 10) {
            ctx.label("loss:client-message-dropped");
            ctx.note(|| format!("t={} (client message lost on the way to the server)", self.now));
            return;
        }
        let renewal = cm.mtype == REQUEST && cm.ciaddr != [0; 4];
        let unicast = cm.ip_dst != BCAST;
        // index: 0 = the expected reply, 1 = nothing, 2 = NAK, 3 = the "other" of OFFER/ACK, 4 = another type
        let choice = if cm.mtype == DISCOVER {
            src.weighted(&[14, 2, 1, 1, 1])
        } else if !renewal {
            src.weighted(&[14, 2, 2, 1, 1])
        } else {
            match (self.renew_policy, unicast) {
                (0, _) | (1, false) => src.weighted(&[10, 3, 2, 0, 1]),
                (1, true) => src.weighted(&[1, 10, 0, 0, 0]),
                _ => src.weighted(&[1, 12, 1, 0, 0]),
            }
        };
        let expected = if cm.mtype == DISCOVER { OFFER } else { ACK };
        let mtype = match choice {
            0 => expected,
            1 => {
                ctx.label("server:silent");
                return;
            }
            2 => NAK,
            3 => {
                if expected == OFFER {
                    ACK
                } else {
                    OFFER
                }
            }
            _ => *src.pick(&[INFORM, DECLINE, RELEASE, DISCOVER, REQUEST, 0, 9, 255]),
        };
        let r = self.mk_reply(mtype, cm.xid, src, ctx);
        self.send_reply(&r, src, ctx);
        if src.chance(1, 10) {
            // a second, independently drawn reply to the same message (another server, or a retry)
            let m2 = match src.weighted(&[4, 2, 1]) {
                0 => mtype,
                1 => ACK,
                _ => NAK,
            };
            let r2 = self.mk_reply(m2, cm.xid, src, ctx);
            ctx.label("reply:second-reply");
            self.send_reply(&r2, src, ctx);
        }
    }

    fn unsolicited(&mut self, src: &mut Src, ctx: &mut Ctx) {
        let mtype = *src.pick(&[ACK, ACK, NAK, OFFER, ACK, INFORM]);
        let xid = if self.sent_any && src.chance(2, 3) {
            self.last_xid
        } else {
            // typical constants an attacker would try
            *src.pick(&[1u32, 0, 2, 0xffff_ffff])
        };
        let r = self.mk_reply(mtype, xid, src, ctx);
        ctx.label("reply:unsolicited");
        self.send_reply(&r, src, ctx);
    }

    /// Replies that reach the client before it has transmitted anything: an OFFER/ACK pair (or single
    /// messages) carrying a guessed transaction id.
    fn unsolicited_before_first(&mut self, src: &mut Src, ctx: &mut Ctx) {
        let xid = *src.pick(&[1u32, 0, 2, 0xffff_ffff, 0x1234_5678]);
        let kinds: &[u8] = match src.weighted(&[3, 1, 1, 1]) {
            0 => &[OFFER, ACK],
            1 => &[ACK],
            2 => &[OFFER],
            _ => &[ACK, OFFER, ACK],
        };
        ctx.label("reply:unsolicited-before-first-message");
        for k in kinds {
            let r = self.mk_reply(*k, xid, src, ctx);
            self.send_reply(&r, src, ctx);
        }
    }

    fn next_time(&mut self, src: &mut Src, ctx: &mut Ctx) -> i64 {
        let now = self.now;
        let due = self.deadline.flatten().map(|d| d.max(now));
        let pending = self.queue.iter().any(|q| q.0 == 0);
        let on_schedule = if pending { now } else { due.unwrap_or(now + SEC) };
        let w: [u32; 6] = if self.configured { [8, 2, 5, 2, 1, 1] } else { [10, 2, 0, 2, 1, 1] };
        match src.weighted(&w) {
            0 => on_schedule,
            1 => now,
            2 => {
                // just before / at / after T1, T2 or expiry of the current lease
                let (t1, t2) = self.t1_t2().unwrap_or((self.e_hi, self.e_hi));
                let target = *src.pick(&[self.e_hi, t1, t2, self.e_hi]);
                let off = *src.pick(&[0i64, -1, 1, 1000, -1000, 500_000]);
                ctx.label("time:boundary-targeted");
                target.saturating_add(off).max(now)
            }
            3 => {
                ctx.label("time:random-advance");
                now + match src.weighted(&[2, 2, 1]) {
                    0 => src.range(1, 1000) as i64,
                    1 => src.range(1, 2 * SEC as u64) as i64,
                    _ => src.range(1, 100 * SEC as u64) as i64,
                }
            }
            4 => {
                ctx.label("time:just-before-poll_at");
                (on_schedule - 1).max(now)
            }
            _ => {
                ctx.label("time:after-poll_at");
                on_schedule + src.range(1, 3 * SEC as u64) as i64
            }
        }
    }
}

fn case(src: &mut Src, ctx: &mut Ctx) -> Result<(), Fail> {
    // ---- configuration
    let mac = [0x02, 0x00, 0x00, 0x00, 0x00, *src.pick(&[0x01u8, 0x10, 0xfe])];
    let smac = [0x02, 0x00, 0x00, 0x00, 0x10, 0x01];
    let mtu = *src.pick(&[1500usize, 576]);
    let t0 = *src.pick(&[0i64, 1, 1_000_000, 86_400_000_000, 1_000_000_007]);
    let seed = src.u64();

    let mut rc = dhcpv4::RetryConfig::default();
    const MS: u64 = 1000;
    if src.chance(2, 3) {
        rc.discover_timeout = Duration::from_micros(*src.pick(&[10_000 * MS, 1000 * MS, 100 * MS, 3000 * MS, 1, 60_000 * MS]));
        rc.initial_request_timeout = Duration::from_micros(*src.pick(&[5000 * MS, 1000 * MS, 250 * MS, 1, 20_000 * MS]));
        rc.request_retries = *src.pick(&[5u16, 0, 1, 2, 3, 8, 16]);
        rc.min_renew_timeout = Duration::from_micros(*src.pick(&[60_000 * MS, 1000 * MS, 10_000 * MS, 500 * MS, 1, 5000 * MS]));
        rc.max_renew_timeout = *src.pick(&[Duration::MAX, Duration::from_secs(1), Duration::from_secs(30), Duration::from_millis(100)]);
    }
    let max_lease = match src.weighted(&[6, 3, 1]) {
        0 => None,
        1 => Some(*src.pick(&[10 * SEC, SEC, SEC / 2, 3 * SEC / 2, 60 * SEC, 1, 2 * SEC + 1, 0])),
        _ => Some(src.range(1, 30 * SEC as u64) as i64),
    };
    let ignore_naks = src.chance(1, 4);
    let (sport, cport) = *src.pick(&[(67u16, 68u16), (67, 68), (6767, 6868), (68, 67), (1, 65535)]);
    let out_opts = src.draw(2);
    let prl = src.chance(1, 4);
    let rx_buf = src.chance(1, 8);

    let yi = *src.pick(&[[10u8, 0, 0, 5], [192, 168, 1, 101], [172, 16, 5, 9]]);
    let prefix = *src.pick(&[24u8, 16, 8, 30, 32, 0]);
    let onlink_srv = [yi[0], yi[1], yi[2], yi[3] ^ 3];
    let (srv_ip, router) = match src.weighted(&[6, 2, 2, 1]) {
        0 => (onlink_srv, if src.bool() { Some(onlink_srv) } else { None }),
        1 => ([203, 0, 113, 1], Some(onlink_srv)),
        2 => ([203, 0, 113, 1], None),
        _ => (onlink_srv, Some([198, 51, 100, 1])),
    };
    let srv_id = if src.chance(1, 6) { [192, 0, 2, 77] } else { srv_ip };
    let plan = Plan { yi, prefix, srv_ip, srv_id, router };
    let arp_policy = match src.weighted(&[4, 4, 1, 4]) {
        0 => ArpPolicy::Answer,
        1 => ArpPolicy::Never,
        2 => ArpPolicy::Sometimes,
        _ => ArpPolicy::Proactive,
    };
    let renew_policy = src.weighted(&[4, 3, 3]) as u8;
    // a server whose datagrams sometimes carry another unicast source (3 in 24 cases) or source
    // address 0.0.0.0, which process_ipv4 lets through (1 in 24 cases)
    let mut weird_src = src.weighted(&[20, 3, 1]) as u8;
    if weird_src == 2 && skip_has("zero-src") {
        weird_src = 0;
    }

    ctx.note(|| {
        format!(
            "client mac ..{:02x} mtu={} t0={}us retry={:?} max_lease={:?}us ignore_naks={} ports server={} client={} out_opts={} prl={} rxbuf={}",
            mac[5], mtu, t0, rc, max_lease, ignore_naks, sport, cport, out_opts, prl, rx_buf
        )
    });
    ctx.note(|| format!("network {:?} arp={:?} renew_policy={}", plan, arp_policy, renew_policy));
    ctx.digest.u64(seed);
    ctx.digest.u64(max_lease.unwrap_or(-1) as u64);
    ctx.digest.u64(rc.discover_timeout.total_micros() ^ rc.initial_request_timeout.total_micros().rotate_left(17) ^ (rc.request_retries as u64) << 50);
    ctx.digest.bytes(&yi);
    ctx.digest.u64(prefix as u64);

    let mut node = Node::new(Hw::Eth(mac), mtu, seed, false, Instant::from_micros(t0));
    let mut sock = dhcpv4::Socket::new();
    sock.set_retry_config(rc);
    sock.set_max_lease_duration(max_lease.map(|m| Duration::from_micros(m as u64)));
    sock.set_ignore_naks(ignore_naks);
    if (sport, cport) != (67, 68) {
        sock.set_ports(sport, cport);
        ctx.label("cfg:custom-ports");
    }
    match out_opts {
        1 => sock.set_outgoing_options(&OUT_OPTS_A),
        2 => sock.set_outgoing_options(&OUT_OPTS_B),
        _ => {}
    }
    if prl {
        sock.set_parameter_request_list(&PRL_A);
    }
    if rx_buf {
        // deliberately leaked (SocketSet<'static>); 1/8 of the cases, 600 bytes each
        sock.set_receive_packet_buffer(Box::leak(vec![0u8; 600].into_boxed_slice()));
        ctx.label("cfg:receive-packet-buffer");
    }
    if max_lease.is_some() {
        ctx.label("cfg:max-lease");
    }
    if ignore_naks {
        ctx.label("cfg:ignore-naks");
    }
    let h = node.sockets.add(sock);

    let mut w = World {
        node,
        h,
        now: t0,
        mac,
        smac,
        sport,
        cport,
        max_lease_us: max_lease,
        bound_us: solicit_bound(&rc),
        plan,
        arp_policy,
        renew_policy,
        src_varied: false,
        sent_any: false,
        last_xid: 0,
        last_type: 0,
        offer_seen: false,
        xids: vec![],
        configured: false,
        have_lease: false,
        e_hi: 0,
        cur: None,
        lease_t0: 0,
        lease_ordered: false,
        lease_clean: false,
        lease_sched: false,
        routable: false,
        abort: false,
        weird_src,
        lease_renew_seen: false,
        lease_rebind_seen: false,
        gate_until: 0,
        lease_gate_free: false,
        applied: None,
        ref_t: t0,
        unconf_sched: true,
        deadline: None,
        queue: vec![],
        valid_acks: 0,
        near_miss: 0,
        crossings: 0,
        unusable_t1_t2_leases: 0,
        reply_kinds: vec![],
    };

    // the application's first look at the socket (a fresh socket reports Deconfigured once)
    match w.read_event() {
        Ev::Conf { .. } => {
            return Err(Fail::new("configured-without-valid-ack:before-first-poll", "a fresh socket reported Configured before any poll"));
        }
        ev => w.apply(&ev),
    }

    // ---- unsolicited traffic before the client has said anything
    if src.chance(1, 12) {
        w.unsolicited_before_first(src, ctx);
    }

    // ---- main loop
    let mut steps = 0;
    while steps < 120 && src.more(49, 50) {
        steps += 1;
        if steps > 1 && src.chance(1, 14) {
            w.unsolicited(src, ctx);
        }
        let t = if steps == 1 { t0 } else { w.next_time(src, ctx) };
        w.step(t, src, ctx)?;
        if w.abort {
            return Ok(());
        }
    }

    if w.valid_acks >= 1 && (w.near_miss >= 1 || w.crossings >= 1) {
        ctx.nontrivial = true;
    }
    if w.valid_acks >= 1 {
        ctx.label("run:has-valid-ack");
    }
    ctx.count("steps", steps as u64);
    ctx.count("valid_acks", w.valid_acks as u64);
    ctx.count("near_miss_acks", w.near_miss as u64);
    ctx.count("leases_with_unusable_t1_t2_pair", w.unusable_t1_t2_leases as u64);

    ctx.digest.bytes(&w.reply_kinds);
    ctx.digest.u64(w.crossings as u64);
    ctx.digest.u64(w.xids.len() as u64);
    Ok(())
}

pub fn prop() -> Prop {
    Prop {
        id: "C18",
        parts: vec![Part { name: "lease", case, quick: 30_000, thorough: 1_500_000 }],
        phases: vec![],
        smoltcp_panic_is_violation: true,
        rule: "one Ethernet node with a dhcpv4 socket (retry configuration, max_lease_duration, ignore_naks, ports, outgoing options, receive buffer drawn) whose application applies Configured/Deconfigured as examples/dhcp_client.rs; a scripted server answers each client message seen on the wire with OFFER/ACK/NAK/other, each with 0..2 drawn defects (xid previous/random/off-by-one, foreign chaddr, server id absent/changed, mask absent/non-contiguous, yiaddr broadcast/zero/multicast, bad cookie, wrong ports, foreign MAC, bad UDP checksum, option list overrun early/late or without end), lease/T1/T2 from boundary lists, loss, delay and duplication in both directions, unsolicited replies (also before the first client message), ARP answered/ignored; <=120 polls at poll_at, at the same instant, just before/at/after T1, T2 and expiry, or at random instants; oracle = lease model over independently decoded frames, socket events and Interface::poll_at; non-trivial = at least one valid ACK accepted and (at least one near-miss ACK delivered or a T1/T2/expiry crossing while bound); distinct by digest of (configuration, reply kinds, crossings)",
        assumptions: vec![
            "independent Ethernet/ARP/IPv4/UDP codecs in vkit::indep and the DHCP codec in c18_dhcp.rs",
            "'most recent request' = the most recent client DHCP message seen on the wire (DISCOVER counts: the client reuses its xid for the following REQUEST)",
            "the client counts as requesting/renewing when its latest message on the wire is a REQUEST or an acceptable OFFER (current xid, own chaddr, server id, unicast yiaddr) reached it since its latest message",
            "an ACK whose option list lacks the end option or ends in an overrunning option (all required fields before that point), or whose IP source is not unicast, may be accepted or ignored",
            "when several valid ACKs arrive in one poll the last one governs address and expiry",
            "liveness checks (no-rebind/no-renew/rebind-without-renew) only apply to leases of at least 1 s whose every poll was made no later than poll_at asked",
            "a Deconfigured event earlier than expiry is always permitted",
            "clause 4 bound = max(discover_timeout, initial_request_timeout << ((max(request_retries,1)-1)/2)) + 1 s",
        ],
    }
}
