#!/usr/bin/env python3
"""tools/seed_prompt.py <prefix> <ID> [<ID> ...]

Writes the task text given to a blind sub-agent that has to seed one property-breaking change:
/tmp/<prefix>-prompts/<ID>.txt. The agent gets nothing from /verif: the text contains the property as
given in properties.jsonl and one line per earlier seeded change of that property (the "what it
breaks" column of the table in DESIGN.md section 12), so that it goes somewhere new. Its worktree
is /tmp/<prefix>-<id>, its deliverables go to /tmp/<prefix>-<id>-out (tools/seeded.sh with
SEED_PREFIX=<prefix> picks them up)."""
import json, re, sys, os
prefix, ids = sys.argv[1], sys.argv[2:]
props = {}
for l in open('/verif/properties.jsonl'):
    p = json.loads(l); props[p['id']] = p
design = open('/verif/DESIGN.md').read()
rows = {}
for m in re.finditer(r'^\| (C\d\d)-([a-z]) \| (.*?) \|', design, re.M):
    rows.setdefault(m.group(1), {})[m.group(2)] = m.group(3)
for m in re.finditer(r'^\| (C\d\d)-([a-z]) / (C\d\d)-([a-z]) \| (.*?) \|', design, re.M):
    rows.setdefault(m.group(1), {})[m.group(2)] = m.group(5)
    rows.setdefault(m.group(3), {})[m.group(4)] = m.group(5)
T = '''You are helping test a verification harness by producing a realistic, subtle BUG INJECTION in the Rust crate smoltcp (a TCP/IP stack). You get a scratch git worktree of the crate at {wt} (work ONLY there and in {out}; never touch /repo, /verif or any other directory; no network access — use `cargo ... --offline`). Nothing else about the harness is available to you, by design. IMPORTANT: do NOT use `git stash` (other worktrees of the same repository share the stash and are being used concurrently). To test on the unmodified tree: `git -C {wt} diff -- src > {out}/patch.diff && git -C {wt} checkout -- src`, run the test, then `git -C {wt} apply {out}/patch.diff`.

The semantic property you must break:

{id} — {title}. Statement: {statement} Quantified over: {quant} Anchored in: {files}

Earlier injections for this property already used the following mechanisms. Choose a DIFFERENT code location and a different kind of mistake from all of them, and deliberately go for a clause of the statement or a corner of the quantifier (a medium, an address family, a socket type, a message type, a timer, a configuration value such as a buffer-size or count limit, an API operation, an interaction between two features) that none of them touched: {mechs}

Your task: make ONE small source change (typically 1–10 lines, in src/) to the crate in {wt} such that
  (1) the crate still compiles and its ENTIRE existing test suite still passes: run `cd {wt} && cargo test --workspace --no-fail-fast --offline 2>&1 | grep -E "^test result|FAILED|panicked"` and confirm no failures (673 + 7 tests pass on the unmodified tree);
  (2) the change breaks the property in a way that ordinary use would NOT expose at once: it must need something specific — a boundary value, a particular ordering or interleaving of events, a wrap-around, a rare protocol state, a particular configuration, one field value or length combination. It must be a plausible developer mistake, not sabotage, and must not break the common case;
  (3) you provide a DEMONSTRATION: a self-contained Rust integration test at {wt}/tests/seeded_demo.rs (public API only, default features; where an interface is needed use a small in-memory phy::Device; see src/phy/loopback.rs, the doc example in src/phy/mod.rs, tests/netsim.rs, src/tests.rs) that FAILS with your change and PASSES on the unmodified tree, with at least one control test that passes on both. Verify both as described above (no git stash).
Deliverables under {out} (it exists): patch.diff (`git -C {wt} diff -- src`, containing ONLY your change), seeded_demo.rs (copy of the test), README.md (what you changed and why it breaks the property, the exact trigger, commands run and observed results). Keep the worktree with your change applied. If an idea is caught by existing tests pick another. Aim for ~25 minutes. Final answer: summarise change, trigger, verification in a few lines.
'''
os.makedirs(f'/tmp/{prefix}-prompts', exist_ok=True)
for ID in ids:
    p = props[ID]; r = rows.get(ID, {})
    mechs = '; '.join(f'({k}) {r[k]}' for k in sorted(r)) or '(none yet)'
    c = ID.lower()
    open(f'/tmp/{prefix}-prompts/{ID}.txt', 'w').write(T.format(wt=f'/tmp/{prefix}-{c}', out=f'/tmp/{prefix}-{c}-out', id=ID, title=p['title'], statement=p['statement'], quant=p['quantifier']['text'], files=', '.join(p['anchors']['files']), mechs=mechs))
    print(ID, len(r), 'earlier mechanisms')
