#!/usr/bin/env python3
"""tools/mkmut.py <name> <file relative to /repo> <old> <new> [occurrence]
Writes /verif/mutants/<name>.patch replacing one occurrence of <old> by <new>."""
import sys, difflib
name, rel, old, new = sys.argv[1:5]
occ = int(sys.argv[5]) if len(sys.argv) > 5 else None
src = open('/repo/' + rel).read()
n = src.count(old)
if n == 0: sys.exit("pattern not found")
if n > 1 and occ is None: sys.exit("pattern occurs %d times; give occurrence index (0-based)" % n)
idx = -1
for _ in range((occ or 0) + 1):
    idx = src.index(old, idx + 1)
dst = src[:idx] + new + src[idx + len(old):]
d = difflib.unified_diff(src.splitlines(True), dst.splitlines(True), 'a/' + rel, 'b/' + rel)
open('/verif/mutants/%s.patch' % name, 'w').write(''.join(d))
print("wrote /verif/mutants/%s.patch" % name)
