#!/bin/bash
# tools/seeded.sh <cNN> <suffix> <Cxx...>   e.g. tools/seeded.sh c02 a C02 C01
# Confirms a seeded change delivered in /tmp/seed-<cNN>-out against its worktree /tmp/seed-<cNN>,
# stores it under /verif/seeded/<CNN>-<suffix>/ and runs the given checks against it on a scratch copy.
set -u
id=$1; suf=$2; shift 2
PFX=${SEED_PREFIX:-seed}; WT=/tmp/$PFX-$id; OUT=/tmp/$PFX-$id-out
ID=$(echo $id | tr a-z A-Z)
DST=/verif/seeded/$ID-$suf
mkdir -p $DST
cp $OUT/patch.diff $DST/patch.diff; cp $OUT/seeded_demo.rs $DST/seeded_demo.rs; cp $OUT/README.md $DST/README-agent.md 2>/dev/null
cd $WT || exit 2
# 1. make sure the worktree has exactly the patch applied
git checkout -q -- src; git apply $DST/patch.diff || { echo "patch does not apply to worktree"; exit 2; }
cp $DST/seeded_demo.rs tests/seeded_demo.rs
demo_with=$(cargo test --offline --test seeded_demo 2>&1 | grep -E "^test result" | tail -1)
suite_with=$(cargo test --offline --lib 2>&1 | grep -E "^test result" | tail -1)
git checkout -q -- src
demo_without=$(cargo test --offline --test seeded_demo 2>&1 | grep -E "^test result" | tail -1)
git apply $DST/patch.diff
echo "demo with change   : $demo_with"
echo "demo without change: $demo_without"
echo "lib suite with change: $suite_with"
# 2. run checks on a scratch copy of the CURRENT /repo + patch
results=""
for c in "$@"; do
  r=$(cd /verif && tools/mutant.sh $DST/patch.diff $c 2>&1 | tail -1)
  echo "$r"
  results="$results$r\n"
done
python3 - "$DST" "$ID" "$demo_with" "$demo_without" "$suite_with" "$results" <<'PY'
import json,sys
dst,ID,dw,dwo,sw,res=sys.argv[1:7]
meta={"property":ID,"patch":"patch.diff","demonstration":"seeded_demo.rs (cargo integration test; fails with the change, passes without)",
 "confirmed":{"demo_with_change":dw,"demo_without_change":dwo,"lib_suite_with_change":sw},
 "checks_run_on_scratch_copy":[l for l in res.split("\\n") if l.strip()],
 "needs_to_manifest":"see README-agent.md"}
json.dump(meta,open(dst+"/meta.json","w"),indent=1)
PY
