#!/bin/bash
# tools/fuzz_stage.sh <Cxx> <target> <sanitizer> <runs per job> <jobs> <max_len> <vcheck binary> <aux evidence out>
#
# Coverage-guided stage of the thorough tier (libFuzzer through cargo-fuzz). Fixed work: <jobs> independent
# libFuzzer processes, each with -runs=<runs>, -seed derived from VERIF_SEED and its own FRESH corpus
# directory filled with the seed corpus that `vcheck <Cxx> --fuzz-seeds` writes from the current tree.
# The oracle is inside the target (same case functions as ./check): a violation prints the usual
# "VIOLATION property=... replay=<tape>" line (exit 1). Any other way a job ends abnormally - libFuzzer
# timeout, out of memory, a panic of the harness itself - is reported as inconclusive (exit 2).
set -u
ID=$1; TGT=$2; SAN=$3; RUNS=$4; JOBS=$5; MAXLEN=$6; VCHECK=$7; AUX=$8
FUZZDIR="${VERIF_FUZZ_DIR:-/verif/fuzz}"
OUT="${VERIF_OUT:-/verif}"
SEED="${VERIF_SEED:-1}"
WORK="$OUT/fuzz-work/$TGT.$$"
FTARGET="${VERIF_FUZZ_TARGET_DIR:-$FUZZDIR/target}"
export CARGO_NET_OFFLINE=true
mkdir -p "$WORK/seeds" "$OUT/replays/new"
cleanup() { rm -rf "$WORK"; rmdir "$OUT/fuzz-work" 2>/dev/null; }
trap cleanup EXIT

if ! (cd "$FUZZDIR" && cargo +nightly fuzz build --fuzz-dir . -s "$SAN" --target-dir "$FTARGET" "$TGT" >"$WORK/build.log" 2>&1); then
  echo "HARNESS-PROBLEM: fuzz target $TGT does not build:"; tail -20 "$WORK/build.log"; exit 2
fi
BIN=$(ls "$FTARGET"/*/release/"$TGT" 2>/dev/null | head -1)
[ -x "$BIN" ] || { echo "HARNESS-PROBLEM: fuzz binary for $TGT not found under $FTARGET"; exit 2; }
"$VCHECK" "$ID" --fuzz-seeds "$WORK/seeds" >"$WORK/seeds.log" 2>&1 || { echo "HARNESS-PROBLEM: seed corpus generation failed"; cat "$WORK/seeds.log"; exit 2; }
NSEEDS=$(ls "$WORK/seeds" | wc -l)

T0=$(date +%s.%N)
for j in $(seq 1 "$JOBS"); do
  mkdir -p "$WORK/c$j" "$WORK/a$j"
  cp "$WORK/seeds"/* "$WORK/c$j"/ 2>/dev/null
  ( cd "$WORK" && VERIF_OUT="$OUT" "$BIN" "$WORK/c$j" -runs="$RUNS" -seed=$((SEED * 1000 + j)) -max_len="$MAXLEN" -len_control=0 \
      -timeout=900 -rss_limit_mb=6000 -artifact_prefix="$WORK/a$j/" -print_final_stats=1 >"$WORK/job$j.log" 2>&1; echo $? >"$WORK/job$j.rc" ) &
done
wait
T1=$(date +%s.%N)

rc=0
grep -h "^VIOLATION property=" "$WORK"/job*.log | sort -u >"$WORK/violations.txt"
if [ -s "$WORK/violations.txt" ]; then
  grep -h "^failure key=" "$WORK"/job*.log | sort -u | cut -c1-400
  cat "$WORK/violations.txt"
  rc=1
fi
for j in $(seq 1 "$JOBS"); do
  jr=$(cat "$WORK/job$j.rc" 2>/dev/null || echo 99)
  if [ "$jr" != "0" ] && ! grep -q "^VIOLATION property=" "$WORK/job$j.log"; then
    echo "HARNESS-PROBLEM: fuzz job $j of $TGT ended with status $jr without a verdict (inconclusive): $(grep -E 'ERROR|SUMMARY|panicked|ALARM' "$WORK/job$j.log" | head -3 | tr '\n' ' ' | cut -c1-300)"
    [ $rc -eq 0 ] && rc=2
  fi
done

python3 - "$WORK" "$JOBS" "$ID" "$TGT" "$SAN" "$RUNS" "$MAXLEN" "$NSEEDS" "$SEED" "$T0" "$T1" "$AUX" "$rc" <<'PY'
import sys, re, os, json, glob
work, jobs, ID, tgt, san, runs, maxlen, nseeds, seed, t0, t1, aux, rc = sys.argv[1:14]
execs = 0; cov = 0; ft = 0; corp = [];
for j in range(1, int(jobs) + 1):
    try: log = open(f"{work}/job{j}.log", errors="replace").read()
    except OSError: continue
    m = re.search(r"stat::number_of_executed_units:\s+(\d+)", log)
    if m: execs += int(m.group(1))
    last = None
    for m in re.finditer(r"cov: (\d+) ft: (\d+) corp: (\d+)/", log): last = m
    if last:
        cov = max(cov, int(last.group(1))); ft = max(ft, int(last.group(2))); corp.append(int(last.group(3)))
samples = []
for f in sorted(glob.glob(f"{work}/c1/*"))[-400::100][:4]:
    b = open(f, "rb").read()
    samples.append({"corpus_unit_of_job_1": os.path.basename(f), "length": len(b), "first_octets_hex": b[:48].hex()})
ev = {
 "property_id": ID, "tier": "thorough", "seed": int(seed), "level": "exploration",
 "coverage": {
  "evaluations": execs,
  # units libFuzzer kept = inputs that reached coverage features no earlier input of that job had;
  # the largest single job is reported (jobs overlap), a conservative count of distinct cases
  "distinct_nontrivial": max(corp) if corp else 0,
  "rule": f"libFuzzer (cargo-fuzz, sanitizer {san}) on target {tgt}: {jobs} independent jobs x -runs={runs}, -max_len={maxlen}, -len_control=0, seeds VERIF_SEED*1000+job, each from a fresh corpus of {nseeds} seed inputs written from the current tree; the target decodes the bytes into the same case function and oracle as the tape-driven check; distinct/non-trivial = corpus units kept for new coverage",
  "samples": samples or [{"note": "no corpus unit could be read"}],
  "edges_covered_max_over_jobs": cov, "features_max_over_jobs": ft, "corpus_units_per_job": corp, "seed_inputs": int(nseeds),
 },
 "assumptions": ["cargo-fuzz builds with --cfg fuzzing, under which smoltcp skips checksum verification: more of the parsers is reachable, the crash/hang oracle is unaffected"],
 "wall_s": float(t1) - float(t0), "violations": 1 if rc == "1" else 0,
}
os.makedirs(os.path.dirname(aux), exist_ok=True)
json.dump(ev, open(aux, "w"), indent=1)
print(f"{ID}[fuzz {tgt}] thorough seed={seed} execs={execs} jobs={jobs} cov={cov} features={ft} corpus={max(corp) if corp else 0} wall={float(t1)-float(t0):.1f}s")
PY
exit $rc
