#!/bin/bash
# tools/patchrun.sh <patch.diff|/dev/null> [Cxx ...]      (default: all 20)
# Applies the patch to a SCRATCH copy of /repo (never /repo itself), points a scratch copy of the
# harness at it and runs the given checks through ./check (quick tier, the registered scales).
# PATCHRUN_MODE=thorough runs the thorough tier (with its fuzz stage for C03/C07).
# One line per check: "<patch> <Cxx> SILENT|ALARM <key>|ERROR(rc)".  Scratch: /tmp/vpatch (--clean removes it).
set -u
M=${PATCHRUN_DIR:-/tmp/vpatch}
if [ "${1:-}" = "--clean" ]; then rm -rf $M; exit 0; fi
PATCH=$(readlink -f "$1"); shift
IDS="$@"; [ -z "$IDS" ] && IDS=$(seq -f "C%02g" 1 20)
mkdir -p $M/out/evidence $M/out/replays/new
rsync -a --delete --exclude target --exclude .git /repo/ $M/repo/
rsync -a --delete --exclude 'target*' /verif/harness/ $M/harness/
rsync -a --delete --exclude 'target*' --exclude corpus --exclude artifacts /verif/fuzz/ $M/fuzz/
sed -i "s|path = \"/repo\"|path = \"$M/repo\"|" $M/harness/vkit/Cargo.toml $M/harness/vcheck/Cargo.toml $M/fuzz/Cargo.toml
if [ "$PATCH" != "/dev/null" ]; then
  (cd $M/repo && patch -p1 --no-backup-if-mismatch -s < "$PATCH") || { echo "$(basename $PATCH) PATCH-FAILED"; exit 2; }
fi
MODE=${PATCHRUN_MODE:-quick}
export VERIF_FUZZ_DIR=$M/fuzz VERIF_FUZZ_TARGET_DIR=$M/fuzz-target
export VERIF_HARNESS_DIR=$M/harness VERIF_TARGET_DIR=$M/target VERIF_OUT=$M/out VERIF_SEED=${VERIF_SEED:-1} VERIF_TIMEOUT=${VERIF_TIMEOUT:-1800}
for id in $IDS; do
  /verif/check $id $MODE >$M/out/$id.log 2>&1
  rc=$?
  if [ $rc -eq 0 ]; then echo "$(basename $PATCH) $id SILENT";
  elif [ $rc -eq 1 ]; then echo "$(basename $PATCH) $id ALARM $(grep -m1 '^failure key' $M/out/$id.log | cut -c1-220)";
  else echo "$(basename $PATCH) $id ERROR($rc) $(tail -2 $M/out/$id.log | tr '\n' ' ' | cut -c1-200)"; fi
done
