#!/usr/bin/env python3
"""Regenerates /verif/MANIFEST.json from the table below and validates it against the schema."""
import json, sys

ALL = ["C%02d" % i for i in range(1, 21)]

# id -> (technique, level text, level_note, design_ref)
CHECKS = {
 "C18": ("model-based PBT: scripted DHCP server with one-attribute-wrong replies, lease model oracle, independent DHCP codec",
         "Ethernet node with a dhcpv4 socket (retry config, max lease, ports, ignore_naks drawn) against a scripted server producing OFFER/ACK/NAK with 20 kinds of single defects, boundary lease/T1/T2 values, loss/duplication both ways, ARP answered/ignored; polls at poll_at and just before/at/after T1, T2, expiry. Oracle: Configured only from a valid ACK; Deconfigured at the first poll >= expiry; poll_at <= expiry; renew <= rebind <= expiry; bounded solicitation gap. 14 hand-made mutants killed by the quick tier (sub-agent report).",
         "Trusts the independent DHCP/UDP/IPv4 codecs and the lease model's reading of 'most recent request' (xid of the latest client message on the wire); liveness clauses only when every poll was on time.",
         "DESIGN.md 3/C18"),
 "C19": ("model-based PBT: scripted resolver with one-attribute-wrong responses, reference resolver oracle, independent DNS codec",
         "dns::Socket with 0-3 servers and 1-3 concurrent queries (A/AAAA, mDNS) against a scripted resolver whose responses have exactly one matching attribute wrong (source address/port, destination port, txid, question name/type), CNAME chains in/out of order, compression pointers (backward/forward/self/loop/out of range), truncation; time moves only to poll_at. Oracle: results only from a fully matching response and a subset of what a reference resolver extracts from it; every query completes within 20 s x servers (+slack); retransmissions repeat the question; no panic, no hang (watchdog). 11 mutants killed (sub-agent report).",
         "Statement read permissively (case-insensitive names, any source from port 5353, QR/opcode/rcode not matching attributes); head-of-line blocking behind an unreachable server is counted, not flagged (time stays bounded).",
         "DESIGN.md 3/C19"),
 "C01": ("model-based PBT over a simulated two-node world with generated per-frame fault schedule (stream-prefix oracle)",
         "Two real smoltcp endpoints (buffers 1..262144, MTU from the minimum, CC none/Reno/CUBIC, delayed ACK/Nagle/timestamps, ISNs steered to wrap points, IPv4/IPv6, raw-IP/Ethernet) exchange PRF streams in both directions over a link that drops/duplicates/delays/reorders/bit-flips for the whole run; at every recv the bytes received must be a prefix of what the peer wrote so far, Finished only after everything written before close. Random exploration of fault schedules and configurations; capped at 20000 events per case. In 1 of 4 worlds both applications first abort a connection after 100-500 events under faults and start over on the same socket objects (streams re-keyed): nothing of the old connection may show; a 'stream ends at the receiver's buffer edge' mode (buffer > 64 KiB, odd MTU, late reader) puts the FIN on a segment clipped at the scaling-rounded window edge.",
         "Bit flips confined to regions where the Internet checksum guarantees detection; PRF stream contents; virtual time owned by the harness.",
         "DESIGN.md 3/C01"),
 "C02": ("invariant + deadlock/livelock detection in a closed simulated world driven only by poll_at, frame arrival and API calls",
         "The C01 world with faults confined to a finite prefix of frames; both applications write, read with pauses (zero windows) and close; a quarter of the worlds (part reuse) run on socket objects that have already carried and aborted another connection. After every poll: unacked data/SYN/FIN implies finite Interface::poll_at. The world may never go quiescent before transfer and shutdown complete (exact deadlock detection, no wall-clock timeout), and no 30 virtual minutes without application progress once the link is reliable (classified by which side ignores ACKs). The driver follows poll_at literally (a deadline at or before now is served at exactly now; three idle polls in a row there = stuck). Six stall / livelock root causes fixed in /repo, none open.",
         "The harness owns clock and schedule; cap hits with recent progress are inconclusive, never violations; applications read out remaining data as soon as the connection is over.",
         "DESIGN.md 3/C02"),
 "C03": ("crash/hang-oracle fuzzing of Interface::poll by generated frame sequences (random, grammar, mutated, reflected) + liveness probe",
         "Interface over Ethernet, raw IP and IEEE 802.15.4 with a socket zoo (TCP listening/connecting/established incl. >64 KiB buffers, UDP, ICMP, raw, DNS with a pending query, DHCPv4, SLAAC, joined groups) is fed 1..64 steps per case: random bytes, grammar frames for every supported protocol (IPv4 options/fragments, IPv6 extension headers, ARP/NDISC/MLD/IGMP/DHCP/DNS, 6LoWPAN IPHC/NHC/FRAG trains), boundary/length/truncate/splice mutations with optional checksum fix-up, reflections answering the stack's own recent output, time advances to 1 h and application actions; polls with unlimited or 0..3-frame transmit budgets. Oracle: no poll panics inside smoltcp (attributed by backtrace), none hangs (10 s watchdog = exit 2; > 50000 frames in one poll with <= 2 KiB queued per socket = non-terminating egress loop), and afterwards a fresh neighbour is still resolved and its echo request answered on an address the interface provably still holds. Four defects found and fixed in /repo; 5 of 7 hand mutants killed (one equivalent) per sub-agent report. The check runs against two builds of smoltcp: the harness' enlarged limits and the default 1500-octet fragmentation / reassembly buffers (where the buffer boundary is reachable on 6LoWPAN); echo requests are aimed at that boundary.",
         "Application misuse that smoltcp documents as a panic (IP version mismatch on send) is kept out of the generators; DHCP events are observed but not applied so the IPv4 address stays static; the probe uses the link-local/IPv4 address because SLAAC may legitimately remove a global one; a poll that consumes more than 10 s of CPU time without returning is a violation (CPU-time watchdog, vkit::hang); wall-clock stalls without CPU consumption are exit 2, never a violation.",
         "DESIGN.md 3/C03"),
 "C04": ("model-based PBT: scripted TCP peer vs reference receiver, independent TCP codec",
         "One socket is fed up to 200 generated segments placed around its advertised window by a scripted peer owning a fixed stream; a reference receiver built from the delivered segments and the windows read off the socket's own output checks: delivered bytes = stream prefix, no byte delivered that never arrived below the advertised edge, ACK never covers unreceived bytes/FIN, Finished only after all data, advertised edge within buffer, nothing sent beyond the peer's FIN is ever delivered or acknowledged. In 1 of 4 cases the socket first carries a complete earlier connection in which the peer parks an out-of-order island and then resets (socket reuse). Exploration by random search with boundary-biased generators; no exhaustiveness claimed.",
         "Trusts vkit::indep TCP/IP codec; 'arrived in window' is a necessary condition only; peer never resets.",
         "DESIGN.md 3/C04"),
 "C05": ("invariant-over-history PBT: scripted TCP peer, every emitted segment checked by independent decoder",
         "The application writes a PRF stream and closes while a scripted peer delivers generated ACK/window schedules (stale, shrinking, zero, duplicate x3, silence until RTO) with drawn MSS/window-scale/timestamp options; each emitted segment is checked against the window and MSS delivered so far, the written bytes (also when retransmitted), contiguity, FIN placement and SYN/scaled window fields. In 1 of 4 passive opens an earlier connection attempt with other MSS / window-scale / timestamp / SACK options is answered and then reset by the peer. Random exploration; 5 hand-made sender mutants are killed by the quick tier.",
         "Trusts vkit::indep codec; peer segments restricted to those whose acceptability is unambiguous so that the learned window is known exactly; keep-alive disabled; MSS<48 clamp accepted as documented design.",
         "DESIGN.md 3/C05"),
 "C06": ("round-trip PBT per Repr type (emit->parse identity, parse->emit->parse idempotence, buffer-independence) + exhaustive sweeps of small spaces",
         "One generator per wire Repr type (28 parts) with provisos taken from the code/docs; each case emits into 0x00/0xFF/garbage-prefilled buffers of exactly the declared length (must be byte-identical, must not panic), parses back (must be equal), then mutates the packet and checks parse->emit->parse idempotence for reprs inside the proviso. Exhaustive phases: all 4-bit UDP-NHC port pairs and 8-bit classes, TCP flag/option combinations, IGMP codes, 802.15.4 addressing modes.",
         "Round-trip oracle is smoltcp against itself by definition of the property; provisos listed in c06.rs; RPL/IPsec reprs not compiled in this feature set.",
         "DESIGN.md 3/C06"),
 "C07": ("crash-oracle PBT/fuzz-style generation per view type: random bytes, every truncation, boundary-value field corruption; accessor battery under catch_unwind",
         "For each of 24 exported Packet/Frame/Header/Option view types: random bytes, valid packets truncated at every offset, and single-field boundary corruptions; on new_checked Ok every accessor applicable to the packet's own message type, the Repr parser and the pretty-printer run under catch_unwind; DNS names drained with an iteration cap. Exhaustive phase over 148 seed packets: every truncation and boundary byte value at every offset < 64.",
         "Accessor-applicability table follows the accessors' docs and smoltcp's own callers; safe Rust turns out-of-buffer reads into panics; RPL/IPsec views not compiled in.",
         "DESIGN.md 3/C07"),
 "C08": ("differential PBT vs independent RFC 1071 implementation (exhaustive over length x alignment) + metamorphic corruption of received packets + independent verification of emitted frames",
         "(a) wire::checksum::data/combine/pseudo_header against an independent implementation on every length 0..=2048 (quick) / 0..=65535 (thorough) x alignment 0..7 x content classes incl. single-octet position weights, plus random buffers; (b) every frame emitted in the other simulation scenarios verified by the independent decoder (checksum verdicts); (c) valid packets for bound UDP/TCP/ICMP sockets with 1-2 bits flipped in a checksummed region or a zero UDP checksum, under drawn ChecksumCapabilities: when the independent verifier finds the checksum invalid and rx verification is on, no socket state/queue may change and nothing may be emitted. Part enforced_dhcp does the same on the DHCPv4 client's own receive path (Ethernet; a well-formed OFFER for the captured transaction is answered - control - and with 1-2 flipped bits must be neither answered nor reported).",
         "Independent one's-complement implementation in vkit::indep; cancelling double flips and structural damage are recognised and not claimed.",
         "DESIGN.md 3/C08"),
 "C09": ("model-based PBT: op sequences on UDP/ICMP/raw sockets vs queue models on wire and receive side, independent codecs",
         "Dual-stack node with 1-5 UDP/ICMP/raw sockets of drawn ring geometry (tiny rings favoured), up to 150 ops (send*/recv*/peek* with short/exact/long buffers, bind/close, polls under transmit budgets 0..3, neighbours answering ARP/NS after delays or never, injected valid datagrams incl. fragments and ICMP errors). Wire oracle: per socket an in-order duplicate-free subsequence of accepted datagrams, unmodified, exactly once after the tail phase when resolvable and fitting. Receive oracle: exact demultiplexing model, each datagram once, whole, right metadata, Truncated never silent. 13 mutants killed (sub-agent report). One open finding (neighbour-discovery starvation).",
         "Trusts vkit::indep codecs + Reasm4 and the demultiplexing model read off process_udp/accepts; head-of-line blocking behind an unresolvable datagram is permitted.",
         "DESIGN.md 3/C09"),
 "C10": ("validity-predicate PBT: independent strict frame validator attached to every simulated device in all other scenarios",
         "Each case runs one case function borrowed from the other simulation-based checks (TCP worlds, scripted peers, datagram sockets, address table, fragmentation, DHCP, DNS, poll_at scenarios, ...) with vkit::indep::validate checking every frame handed to TxToken::consume: MTU, Ethernet/ARP fields, IPv4/IPv6 header consistency and checksums, extension/TLV structure, ICMP/NDISC/MLD/IGMP rules, UDP/TCP lengths, options and checksums, DHCP/DNS structure, and source-address legality against the interface's addresses at emission time.",
         "Trusts the independent decoders; 802.15.4 frames only size-checked here (decoded by C20); scenarios that bypass Node::poll are validated without the source-ownership rule.",
         "DESIGN.md 3/C10"),
 "C11": ("table oracle: exhaustive enumeration of the address-class table (278k cells) + random fill of free fields; independent encoder/decoder",
         "Every cell of family x medium/L2 destination x IP source class x IP destination class x protocol x port relation x socket binding x raw x DNS is instantiated on a fresh interface with one valid packet built by the independent encoder and ingested by a single poll; rules R1-R5 (not addressed to us => no delivery/no answer; delivery matches the bound endpoint; no RST/ICMP error for non-unicast destination or source except the RFC-mandated Parameter Problem code 2; no error in answer to an error/RST; TCP to broadcast/multicast/loopback never changes socket state) are judged on socket queues/states and emitted frames. Exhaustive over the table in both tiers; The table includes an IEEE 802.15.4 class without destination addressing from a foreign PAN, and the random fill sends DNS near-miss responses (right in everything but the destination port, or but the transaction id). 63 violation keys from 5 root causes fixed, 1 open (pinned by an existing unit test).",
         "Trusts vkit::indep encoder/decoder and the class table's reading of 'addressed to the interface'; 802.15.4 judged on ingress side only; one packet per fresh interface.",
         "DESIGN.md 3/C11"),
 "C12": ("round-trip PBT through two interfaces with independent reassembler + bounded-exhaustive permutations of <=4 fragments",
         "Sender with UDP/ICMP/raw sockets, MTU 68..5000, 1-4 oversized datagrams back to back plus ingress-triggered fragmented echo replies under device back-pressure; every emitted fragment checked (<= MTU, offsets multiple of 8, consistent header, MF) and the independent reassembler must rebuild exactly each datagram sent; receiver gets fragments in drawn orders with duplicates/losses/overlaps against an exact model of reassembly slots, gap limit and timeout; all permutations x single duplications of 2-4 fragments enumerated (33k evaluations).",
         "Trusts vkit::indep (IPv4, UDP, ICMP, Reasm4) and the slot/gap/timeout model; ident reuse excluded from the input domain.",
         "DESIGN.md 3/C12"),
 "C13": ("metamorphic PBT: in-line early-poll prober (sufficiency) and same-instant re-poll (non-spinning) over mixed timer scenarios",
         "Scenario mixtures arm every timer source (TCP retransmit/delayed ACK/keep-alive/timeout/zero-window probe/TIME-WAIT against scripted peers, DHCP, DNS with several servers, unresolved neighbours, pending fragments under back-pressure, SLAAC with/without RAs) on Ethernet/IP/802.15.4; after each step, with no frame waiting, polls at now+1us, midpoint and d-1us (d = poll_at) must transmit nothing but IGMP/MLD; a poll that did no I/O must leave the deadline > now (one silent re-poll tolerated). 8 mutants killed (sub-agent report).",
         "Armed-source labels are inferred from public getters; silent timers (TIME-WAIT expiry, SLAAC sync) only visible in the opt-in strict mode.",
         "DESIGN.md 3/C13"),
 "C20": ("differential/round-trip PBT: two 802.15.4 interfaces vs raw-IP twin, independent 802.15.4/6LoWPAN (FRAG, IPHC, NHC) codec both ways, bounded-exhaustive fragment permutations",
         "UDP (all port classes), ICMPv6 echo and TCP between link-local/global/multicast addresses over 802.15.4 with extended/short addresses, hop limits, payload 0..4200, back-to-back datagrams under back-pressure, fragments permuted/duplicated (all permutations x single duplications for 2-4 fragments); every frame <= 127 octets and decoded by an independent decompressor into exactly the datagram the script defines; deliveries equal what was sent and what the raw-IP twin delivers, once or (beyond reassembler limits) not at all; an independent IPHC encoder feeds every legal compression mode incl. stateful contexts to the receiver; adversarial FRAG1/FRAGN/IPHC/NHC frames must not panic; multicast destinations include the boundaries between the RFC 6282 8/32/48-bit/in-line forms. 10 mutants killed (sub-agent report).",
         "Trusts the independent RFC 4944/6282 codec (encoder and decoder cross-asserted) and the reference reassembler; frames carry no FCS; elided UDP checksums in fragmented datagrams are outside what the stack itself sends.",
         "DESIGN.md 3/C20"),
 "C14": ("model-based PBT (VecDeque model) + bounded-exhaustive op-sequence enumeration",
         "Random op sequences (<=200 ops, capacities 0..=4096) on RingBuffer and PacketBuffer compared with a VecDeque model after every operation, plus exhaustive enumeration of all op sequences up to depth 4 (quick) / 5 (thorough) over a small alphabet for small capacities. Exploration, not proof: exhaustive only inside the stated small sub-space.",
         "Trusts the VecDeque model and the stated preconditions of the asserted operations; contents of unallocated slots compared only when written through the unallocated interface.",
         "DESIGN.md 3/C14"),
 "C16": ("invariant-over-history PBT: scripted ARP/NDISC environment (timely/late/absent/unsolicited/spoofed claims), own LPM router model, independent codecs incl. 802.15.4/IPHC",
         "Node on Ethernet (IPv4+IPv6) or 802.15.4 with 2-6 sockets sending to more destinations than cache slots (on-link, via default/more specific/expiring/no route); up to 70 events of sends, ARP/NA/NS claims of every legitimacy class, plain traffic, address changes, route changes, transmit budgets and time steps across the 1 s and 60 s boundaries. For every emitted unicast frame: next hop by an independent longest-prefix-match model, L2 destination must be unicast and among the addresses legitimately claimed/confirmed within 60 s since the last address change; discovery frames >= 1 s apart and only for real next hops; queued datagrams leave FIFO, once, only by transmission. 11 mutants killed (sub-agent report).",
         "Legitimacy of a claim follows what the statement calls 'learned' from validated ARP/NDISC (a valid NA also counts for its IP source, as smoltcp's own tests pin); starvation of discovery by another socket is counted here and judged under C09.",
         "DESIGN.md 3/C16"),
 "C17": ("table-oracle PBT: one event at a time (ingress single / egress / API / time), allowed-transition table with guards from an independent sequence-space view",
         "Up to 120 events per case over several connection life cycles; segments drawn around RCV.NXT, window edges, ISS+1, SND.NXT, FIN+1; every observed state change must be an RFC 9293 edge whose guard (exact ISS ack, in-order FIN, ack of own FIN, in-window RST, TIME-WAIT >= 10 s, configured timeout) holds; part deep steers half of the events along the RFC's expected path so the random half meets the closing states; TIME-WAIT must also END: an egress pass with nothing to send, 10 s after entry / the last segment received in TIME-WAIT, must leave the socket CLOSED. One open known finding (close() in SYN-RECEIVED).",
         "Guards are necessary conditions from emitted segments and API calls; not judged while the socket's ISS is unobserved; peer never offers window scaling.",
         "DESIGN.md 3/C17"),
 "C15": ("exhaustive BFS over reachable states (bounded universe) + model-based PBT",
         "Every reachable assembler state over universe 0..12 (quick) / 0..14 (thorough) is visited and every op with every argument applied to it, compared with a range-list model (refusal only above the limit, refusal leaves state unchanged, offset-0 add_then_remove_front never fails); random sequences over universes up to 4096; whole check repeated on a build with ASSEMBLER_MAX_SEGMENT_COUNT=32.",
         "Trusts the range-list model; BFS assumes tracker state is canonical per range set; universe bounded.",
         "DESIGN.md 3/C15"),
}

NOT_YET = "check not built yet in this revision of /verif (planned in DESIGN.md, section 3)"

def main():
    checks = []
    for pid in ALL:
        if pid not in CHECKS:
            continue
        tech, text, note, ref = CHECKS[pid]
        checks.append({
            "property_id": pid,
            "quick_cmd": "./check %s quick" % pid,
            "thorough_cmd": "./check %s thorough" % pid,
            "evidence_file": "/verif/evidence/%s.json" % pid,
            "replay_cmd_template": "./check %s --replay {path}" % pid,
            "engine": "vkit",
            "level_claimed": {"category": "exploration", "text": text, "design_ref": ref},
            "level_note": note,
            "technique": tech,
        })
    hooks_commits = []
    m = {
        "version": 1,
        "setup_cmd": "cd /verif/harness && CARGO_NET_OFFLINE=true cargo build --release --offline",
        "hooks": {
            "guard": "--cfg smoltcp_verif",
            "enable": "no hooks are used: every check builds /repo unmodified as a path dependency of /verif/harness (cargo build --release), observing it only through its public API and a harness phy::Device",
            "baseline_off_cmd": "cd /repo && cargo test --workspace --no-fail-fast --offline",
            "source_commits": hooks_commits,
            "add_only": True,
        },
        "engines": [
            {"name": "vkit", "path": "/verif/harness/vkit",
             "serves_properties": sorted(CHECKS.keys()),
             "kind_free_text": "home-grown choice-tape property-based testing engine (seeded generation, recorded draws, integrated tape shrinking, replay files), sharded over all cores; exhaustive phases enumerate tapes for small sub-spaces"},
            {"name": "libfuzzer (cargo-fuzz 0.13.2, libfuzzer-sys 0.4)", "path": "/verif/fuzz",
             "serves_properties": ["C03", "C07"],
             "kind_free_text": "coverage-guided stage of the thorough tier of C03 and C07 (tools/fuzz_stage.sh): targets c03_frames / c07_views include the check modules by path and run the same case functions and oracles; bytes are decoded into the choice tape (Src::from_bytes), violations are written as ordinary tape replays; fixed -runs per job and -seed derived from VERIF_SEED"},
        ],
        "checks": checks,
        "notes": "Known findings: /verif/known_findings.json (open entries print KNOWN-FINDING; fixed entries are regression replays). VERIF_SEED selects the generator seed (default 1). Exit 2 = harness problem/inconclusive, never a violation.",
        "not_applicable": [{"property_id": p, "reason": NOT_YET} for p in ALL if p not in CHECKS],
    }
    json.dump(m, open("/verif/MANIFEST.json", "w"), indent=1)
    try:
        import jsonschema
        jsonschema.validate(m, json.load(open("/root/.vp/MANIFEST.schema.json")))
        print("MANIFEST.json valid;", len(checks), "checks,", len(m["not_applicable"]), "not_applicable")
    except ImportError:
        print("jsonschema not available; written without validation")

if __name__ == "__main__":
    main()
