#!/bin/bash
# tools/regress_seeded.sh [out-file]
# Re-applies every seeded change (/verif/seeded/<ID>-<x>/patch.diff) to a scratch copy of the CURRENT /repo
# and runs the check of its own property through ./check (quick tier). One line per change:
#   <ID>-<x> CAUGHT <key> | SILENT | PATCH-FAILED | ERROR(rc)
# C05-b is expected SILENT (the fix f279280 made it unobservable, see its meta.json).
set -u
OUT=${1:-/dev/stdout}
: > "$OUT"
for d in /verif/seeded/*/; do
  name=$(basename "$d"); id=${name%%-*}
  pf="$d/patch.diff"; [ -f "$d/patch-rebased.diff" ] && pf="$d/patch-rebased.diff"   # rebased onto later /repo fixes
  r=$(PATCHRUN_DIR=${PATCHRUN_DIR:-/tmp/vregress} /verif/tools/patchrun.sh "$pf" "$id" 2>&1 | tail -1)
  case "$r" in
    *" ALARM "*) echo "$name CAUGHT $(echo "$r" | sed 's/.*failure key=//' | cut -c1-110)" >> "$OUT" ;;
    *" SILENT"*) echo "$name SILENT" >> "$OUT" ;;
    *PATCH-FAILED*) echo "$name PATCH-FAILED" >> "$OUT" ;;
    *) echo "$name $r" | cut -c1-200 >> "$OUT" ;;
  esac
done
