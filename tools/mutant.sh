#!/bin/bash
# tools/mutant.sh <patch.diff> <Cxx> [Cxx...]
# Applies a patch to a SCRATCH copy of /repo (never /repo itself), builds a scratch copy
# of the harness against it and runs the quick tier of the given checks.
# Prints one line per check: "<patch> <Cxx> CAUGHT|MISSED|ERROR(rc)".
# Scratch lives in /tmp/vmut (kept between calls for incremental builds; remove with: tools/mutant.sh --clean)
set -u
M=/tmp/vmut
if [ "${1:-}" = "--clean" ]; then rm -rf $M; exit 0; fi
PATCH=$(readlink -f "$1"); shift
mkdir -p $M/out
rsync -a --delete --exclude target --exclude .git /repo/ $M/repo/
rsync -a --delete --exclude 'target*' /verif/harness/ $M/harness/
sed -i "s|path = \"/repo\"|path = \"$M/repo\"|" $M/harness/vkit/Cargo.toml $M/harness/vcheck/Cargo.toml
if [ "$PATCH" != "/dev/null" ]; then
  (cd $M/repo && patch -p1 --no-backup-if-mismatch -s < "$PATCH") || { echo "$(basename $PATCH) PATCH-FAILED"; exit 2; }
fi
FEATS=$(echo "$@" | tr 'A-Z' 'a-z' | tr ' ' ',')
FEATARGS="--no-default-features --features $FEATS"
# C10 (and the emitted part of C08, which wraps it) borrows the scenarios of every other check: default feature set
case " $(echo "$@" | tr a-z A-Z) " in *" C10 "*|*" C08 "*) FEATARGS="" ;; esac
(cd $M/harness && CARGO_NET_OFFLINE=true cargo build --release $FEATARGS --target-dir $M/target >$M/build.log 2>&1) || { echo "$(basename $PATCH) BUILD-FAILED"; tail -20 $M/build.log; exit 2; }
for id in "$@"; do
  ID=$(echo $id | tr a-z A-Z)
  VERIF_OUT=$M/out VERIF_SEED=${VERIF_SEED:-1} timeout --signal=KILL ${MUTANT_TIMEOUT:-1800} $M/target/release/vcheck $ID quick >$M/out/$ID.log 2>&1
  rc=$?
  if [ $rc -eq 1 ]; then echo "$(basename $PATCH) $ID CAUGHT: $(grep -m1 '^failure key' $M/out/$ID.log | cut -c1-200)";
  elif [ $rc -eq 0 ]; then echo "$(basename $PATCH) $ID MISSED";
  else echo "$(basename $PATCH) $ID ERROR($rc): $(tail -3 $M/out/$ID.log | tr '\n' ' ' | cut -c1-300)"; fi
done
