//! Coverage-guided companion of the C07 check: first byte = view type, rest = the bytes.
//! Same battery and same oracle as `./check C07` (vcheck/src/c07.rs, included by path).
#![no_main]
use libfuzzer_sys::fuzz_target;

#[allow(dead_code)]
#[path = "../../harness/vcheck/src/c07.rs"]
mod c07;

fuzz_target!(|data: &[u8]| {
    static HOOK: std::sync::Once = std::sync::Once::new();
    HOOK.call_once(|| {
        vkit::runner::install_panic_hook();
        vkit::runner::set_quiet(true);
    });
    c07::fuzz_one(data);
});
