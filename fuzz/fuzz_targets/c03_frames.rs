//! Coverage-guided companion of the C03 check: first byte = medium, the rest drives the
//! same case function through the byte -> choice-tape bridge (`Src::from_bytes`).
#![no_main]
use libfuzzer_sys::fuzz_target;

#[allow(dead_code)]
#[path = "../../harness/vcheck/src/c03.rs"]
mod c03;

fuzz_target!(|data: &[u8]| {
    static HOOK: std::sync::Once = std::sync::Once::new();
    HOOK.call_once(|| {
        vkit::runner::install_panic_hook();
        vkit::runner::set_quiet(true);
    });
    c03::fuzz_one(data);
});
